"""C07 - constant folding never changes a value, its type, or an error.  DESIGN.md section C07."""
from harness.foldkern import *   # noqa: F401,F403
from harness import foldkern as fk

META = {
    'bounds': 'fold_int: BinOp(Constant(a), op, Constant(b)) for all 0 <= a, b < 10^6 (symbolic; int or the boolean a != 0; < 16 for | ^ &), 13 operators '
              '(shift counts <= 8, exponents <= 3); fold_pairs: two expressions in one module over %d representative literals of every '
              'numeric type x 4 type variants of each operand x 13 operators; fold_nested: two nested operators over the same literals '
              'in %d syntactic contexts; number_print: %d numeric constants (incl. 1e999, 5e-324, 2**64, imaginary) x sign x context' % (fk.N_VALS, fk.N_CTX, fk.N_NUMS),
    'outside': 'float/complex operands are representatives, not symbolic (z3 reals are not IEEE doubles; CrossHair realises floats at repr); '
               'ints >= 10^6 in fold_int; more than two nested operators; interpreters other than 3.12',
    'stubs': ['fold_int only: unparse_expression -> ExprText (length by digit-count model), safe_eval -> structural evaluator with '
              'operator.*, ast.parse -> returns the node, compare_ast -> no-op, repr -> sign model.  The other obligations run the real '
              'printer, the real eval of the printed closed arithmetic text, and the real parser'],
    'assumptions': ['CPython evaluates literal arithmetic correctly (operator.* on ints is the reference semantics)'],
}


def obligations(tier, seed):
    t = 240 if tier == 'quick' else 2400
    def fix(lo, width, v):
        return ['b%d == %s' % (lo + i, bool((v >> i) & 1)) for i in range(width)]
    nested = []
    for o in range(fk.N_OPS):
        for r in (((o + seed) % 2,) if tier == 'quick' else (0, 1)):
            for c in ([(0, 1, 3, 4, 5, 11)[(o + seed) % 6]] if tier == 'quick' else (0, 1, 3, 4, 5, 11)):
                nested.append(fix(0, 4, o) + fix(4, 1, r) + fix(5, 4, c) + (['b21 == %s' % bool((o + seed) & 1)] if tier == 'quick' else []))
    return [
        dict(name='C07b.fold_int', fn='fold_int', timeout=t, shards=[['op == %d' % o, 'a_bool == %s' % ab] for o in range(fk.N_OPS) for ab in (True, False)],
             bounds='all 0 <= a,b < 10^6 (bitwise | ^ &: < 16, where z3 has to realise the operands), 13 operators, int/bool operands'),
        dict(name='C07b.fold_int.twin', fn='fold_int_twin', timeout=t, shards=[[]], expect='refuted', bounds='reachability twin: something is folded'),
        dict(name='C07.fold_pairs', fn='fold_pairs_b', timeout=t,
             shards=[['b0 == %s' % bool(o & 1), 'b1 == %s' % bool(o & 2), 'b2 == %s' % bool(o & 4), 'b3 == %s' % bool(o & 8)]
                     + (['b16 == %s' % bool((o + seed) & 1)] if tier == 'quick' else []) for o in range(fk.N_OPS)],
             bounds='%d^2 operand pairs x 16 type-variant pairs x 13 operators (quick: a seeded half of the variant pairs per operator)' % fk.N_VALS),
        dict(name='C07c.fold_nested', fn='fold_nested_b', timeout=t, shards=nested,
             bounds='13 inner x 13 outer operators x 8^3 operand triples x left/right nesting x contexts (quick: one context and one nesting direction per outer operator, rotating with the seed; thorough: 6 of the %d contexts, both directions)' % fk.N_CTX),
        dict(name='C07.number_print', fn='number_print_b', timeout=t, shards=[['b0 == True'], ['b0 == False']],
             bounds='%d constants x sign x %d contexts' % (fk.N_NUMS, fk.N_CTX)),
    ]
