"""C02 - printed source re-parses to exactly the same syntax tree.  DESIGN.md section C02."""
from harness.printkern import *     # noqa: F401,F403
from harness.strkern import *       # noqa: F401,F403
from harness.foldkern import number_print_b, N_NUMS, N_CTX, NUMS   # noqa: F401
from harness import printkern as pk, strkern

META = {
    'bounds': 'C02a: %d expression slots x %d child kinds (depth 2; thorough adds %d grand-child kinds = depth 3), each tree admitted only '
              'if CPython\'s own unparser/parser reproduce it exactly; C02b: %d statement templates x %d child kinds through '
              'minify(all transforms off); C02d: %d numeric constants x sign x %d contexts; C02e: string bodies |s| <= 2/3 over all '
              'non-surrogate Unicode + a 14-character alphabet with surrogates/NUL, bytes per value and over a 12-value alphabet, for '
              'MiniString (4 quote styles), OuterFString.str_for, f_string.Str (quote subsets, PEP 701 on/off), f_string.Bytes; '
              'thorough also runs C02a/C02b on the 3.11 interpreter (pre-PEP 701 f-string code path)' % (pk.N_SLOT, pk.N_CHILD, pk.N_CHILD, pk.N_STMT, pk.N_CHILD, N_NUMS, N_CTX),
    'outside': 'trees deeper than 3 below a slot (parenthesisation is decided per parent/child edge); identifiers other than the '
               'concrete ones in the grammar; token adjacency with symbolic token texts (C02c of the design is covered only through '
               'the concrete leaves of the grammar); interpreters other than 3.12 / 3.11',
    'stubs': ['eval in ministring / f_string -> reference decoder R-lit (C02e only); C02a/b/d run the real code unstubbed'],
    'assumptions': ['ast.unparse / ast.parse / ast.dump of CPython are the reference for "same tree" (type- and sign-exact)'],
}


def selftest(tier):
    return strkern.selftest_rlit(2000 if tier == 'quick' else 50000)


def _top(i, n=4, hi=13):
    return ['b%d == %s' % (hi - j, bool((i >> j) & 1)) for j in range(n)]


def _fix(lo, width, v):
    return ['b%d == %s' % (lo + i, bool((v >> i) & 1)) for i in range(width)]


def obligations(tier, seed):
    t = 240 if tier == 'quick' else 3000
    # quick explores a seeded quarter of each grammar index space (two middle index bits pinned by the seed)
    q = ['b9 == %s' % bool(seed & 1), 'b8 == %s' % bool(seed & 2)] if tier == 'quick' else []
    n = 2 if tier == 'quick' else 3
    obs = ([
        dict(name='C02a.expr_roundtrip', fn='expr_roundtrip_q', timeout=t, shards=[['b11 == %s' % a, 'b10 == %s' % b] for a in (True, False) for b in (True, False)],
             bounds='all %d slots x 32 interesting child kinds' % pk.N_SLOT),
    ] if tier == 'quick' else [
        dict(name='C02a.expr_roundtrip', fn='expr_roundtrip', timeout=t, shards=[_top(i) for i in range(16)],
             bounds='all %d slots x %d child kinds (index from 14 boolean structure parameters)' % (pk.N_SLOT, pk.N_CHILD)),
    ]) + [
        dict(name='C02a.expr.twin', fn='expr_twin', timeout=t, shards=[['p == 5']], expect='refuted', bounds='reachability twin: parentheses are emitted'),
    ] + ([
        dict(name='C02b.stmt_roundtrip', fn='stmt_roundtrip_q', timeout=t, shards=[['b11 == %s' % a, 'b10 == %s' % b] for a in (True, False) for b in (True, False)],
             bounds='all %d statement templates x 32 interesting child kinds' % pk.N_STMT),
    ] if tier == 'quick' else [
        dict(name='C02b.stmt_roundtrip', fn='stmt_roundtrip', timeout=t,
             shards=[_top(i) + _fix(14, 7, c2) for i in range(16) for c2 in (1, 9, 41, 63)],
             bounds='all %d statement templates x %d child kinds x 4 second-child kinds' % (pk.N_STMT, pk.N_CHILD)),
    ]) + [
        dict(name='C02d.number_print', fn='number_print_b', timeout=t, shards=[['b0 == True'], ['b0 == False']], bounds='see META'),
        dict(name='C02e.ministring', fn='ministring', timeout=t, shards=[['len(s) <= %d' % n, 'q == %d' % q, 'not has_surrogate(s)'] for q in range(4)],
             bounds='|s| <= %d, 4 quote styles' % n),
        dict(name='C02e.ministring_alpha', fn='ministring_alpha', timeout=t, shards=[['n <= %d' % n, 'q == %d' % q] for q in range(4)], bounds='alphabet incl. surrogates'),
        dict(name='C02e.outer_str_for', fn='outer_str_for', timeout=t, shards=[['len(s) <= %d' % n, 'q == %d' % q, 'not has_surrogate(s)'] for q in range(4)],
             bounds='|s| <= %d, 4 quote styles' % n, public_replay='public_outer'),
        dict(name='C02e.outer_str_for_alpha', fn='outer_str_for_alpha', timeout=t, shards=[['n <= %d' % n, 'q == %d' % q] for q in range(4)], bounds='alphabet incl. surrogates'),
        dict(name='C02e.fstr_str', fn='fstr_str', timeout=t,
             shards=[['len(s) <= %d' % n, 'qmask == %d' % qm, 'pep701 == %s' % p, 'not has_surrogate(s)'] for qm in (15, 7, 6, 3) for p in (True, False)],
             bounds='|s| <= %d, 4 quote subsets, PEP 701 on/off' % n),
        dict(name='C02e.fstr_bytes_alpha', fn='fstr_bytes_alpha', timeout=t, shards=[['n <= %d' % n, 'qmask == %d' % qm] for qm in (15, 7, 3)], bounds='byte alphabet'),
    ]
    if tier == 'thorough':
        obs.append(dict(name='C02a.expr_roundtrip3', fn='expr_roundtrip3', timeout=t, shards=[_fix(14, 7, p) for p in range(pk.N_SLOT)],
                        bounds='depth 3: %d x %d x %d' % (pk.N_SLOT, pk.N_CHILD, pk.N_CHILD)))
        obs.append(dict(name='C02a.expr_roundtrip.py311', fn='expr_roundtrip', timeout=t, python='py311', shards=[_top(i) for i in range(16)],
                        bounds='same on Python 3.11.7'))
        obs.append(dict(name='C02b.stmt_roundtrip.py311', fn='stmt_roundtrip', timeout=t, python='py311', shards=[_top(i) + _fix(14, 7, 1) for i in range(16)],
                        bounds='same on Python 3.11.7'))
    return obs
