"""C14 - the command line tool never emits more bytes than it was given.  DESIGN.md section C14.

Real code executed symbolically: python_minifier.__main__.main, do_minify, source_modules, stdout_write_bytes.
"""
from vf.clienv import Env, namespace
from vf.stubs import mod

META = {
    'bounds': 'source bytes |S| <= 3 (quick) / 4 (thorough), any byte values; minify() result = arbitrary str |m| <= 2/3 (one more for the do_minify kernel) '
              'over all of Unicode; 5 output modes; PYMINIFY_FORCE_BEST_EFFORT absent / arbitrary string',
    'outside': 'sources and results longer than the bound; real file systems and pipes (replay uses them)',
    'stubs': ['python_minifier.__main__.minify -> returns an arbitrary str (the environment: "whatever the API returns")',
              'open / os / sys in python_minifier.__main__ -> in-memory vf.clienv.Env',
              'parse_args -> Namespace chosen by the output-mode structure parameter'],
    'assumptions': ['minify() returns text that is encodable as UTF-8 (no lone surrogates): otherwise outside'],
}

MODES = ['file->stdout', 'file->--output', 'file --in-place', 'stdin->stdout', 'stdin->--output']


def _setup(mode, S, force_set, force_val):
    environ = {'PYMINIFY_FORCE_BEST_EFFORT': force_val} if force_set else {}
    if mode <= 2:
        env = Env(fs={'a.py': S}, environ=environ)
        args = namespace(['a.py'], output='o.py' if mode == 1 else None, in_place=(mode == 2))
    else:
        env = Env(stdin=S, environ=environ)
        args = namespace(['-'], output='o.py' if mode == 4 else None)
    return env, args


def _emitted(env, mode):
    if mode in (0, 3):
        return env.stdout_bytes
    if mode in (1, 4):
        return env.fs.get('o.py')
    return env.fs.get('a.py')


def size_rule(mode: int, S: bytes, m: str, force_set: bool, force_val: str) -> bool:
    """
    pre: 0 <= mode <= 4
    pre: len(S) <= 5
    pre: len(m) <= 5
    pre: len(force_val) <= 1
    post: _
    """
    try:
        mb = m.encode('utf-8')
    except UnicodeEncodeError:
        return True
    env, args = _setup(mode, S, force_set, force_val)
    with env.installed(args=args, minify=lambda source, **kw: m) as main_mod:
        main_mod.main()
    out = _emitted(env, mode)
    if out is None:
        return False
    force = force_set and force_val != ''
    if force:
        expected = mb
    elif len(mb) > len(S):
        expected = S
    else:
        expected = mb
    if out != expected:
        return False
    if not force and len(out) > len(S):
        return False
    # nothing else is written: only the designated destination
    wrote = env.written_paths()
    if mode in (0, 3):
        return wrote == [] and len(env.stdout_text) == 0
    if mode in (1, 4):
        return all(p == 'o.py' for p in wrote) and env.stdout_bytes == b'' and (mode == 4 or env.fs['a.py'] == S)
    return all(p == 'a.py' for p in wrote) and env.stdout_bytes == b''


def size_rule_twin(mode: int, S: bytes, m: str) -> bool:
    """
    pre: 0 <= mode <= 4
    pre: len(S) <= 3
    pre: len(m) <= 3
    post: _
    """
    # reachability: the pass-through branch (minified larger than source) is taken for some input -> must be refuted
    try:
        mb = m.encode('utf-8')
    except UnicodeEncodeError:
        return True
    env, args = _setup(mode, S, False, '')
    with env.installed(args=args, minify=lambda source, **kw: m) as main_mod:
        main_mod.main()
    return _emitted(env, mode) == mb


def do_minify_rule(S: bytes, m: str, force_set: bool, force_val: str) -> bool:
    """
    pre: len(S) <= 6
    pre: len(m) <= 6
    pre: len(force_val) <= 1
    post: _
    """
    # the kernel alone, one size larger: do_minify returns m.encode() iff not larger than S (bytes, not characters)
    try:
        mb = m.encode('utf-8')
    except UnicodeEncodeError:
        return True
    environ = {'PYMINIFY_FORCE_BEST_EFFORT': force_val} if force_set else {}
    env = Env(environ=environ)
    args = namespace(['a.py'])
    seen = []

    def fake_minify(source, **kw):
        seen.append(source)
        return m

    with env.installed(minify=fake_minify) as main_mod:
        try:
            r = main_mod.do_minify(S, 'a.py', args)
        except main_mod.MinificationNotBeneficialError:
            return (not (force_set and force_val != '')) and len(mb) > len(S) and len(seen) == 1 and seen[0] == S
    if not (len(seen) == 1 and seen[0] == S):
        return False    # the API must be given exactly the bytes that were read (any encoding, any line ending)
    if force_set and force_val != '':
        return r == mb
    return r == mb and len(mb) <= len(S)


def two_identical_files(S: bytes, m: str, T: bytes, first_dir: bool) -> bool:
    """
    pre: len(S) <= 3 and len(T) <= 3
    pre: len(m) <= 2
    post: _
    """
    # one in-place run over several files, two of them byte-identical: every file obeys the size rule on its own
    # (the API result for a source is a function of the source: the stub returns m for S and "" otherwise)
    try:
        mb = m.encode('utf-8')
    except UnicodeEncodeError:
        return True
    env = Env(fs=[['d/a.py', S], ['d/b.py', S], ['c.py', T]], dirs=[['d', [('d', [], ['a.py', 'b.py'])]]])
    args = namespace(['d', 'c.py'] if first_dir else ['c.py', 'd'], in_place=True)
    with env.installed(args=args, minify=lambda source, **kw: (m if source == S else '')) as main_mod:
        main_mod.main()
    exp_s = S if len(mb) > len(S) else mb
    exp_t = exp_s if T == S else b''
    return env.fs['d/a.py'] == exp_s and env.fs['d/b.py'] == exp_s and env.fs['c.py'] == exp_t


def public_size_rule(mode, S, m, force_set=False, force_val=''):
    """Replay with the real CLI in a subprocess on a real temporary directory.

    The API result cannot be dictated to a real run, so the replay checks the consequence the property names:
    bytes emitted <= bytes read (without the override) for a source built from S.
    """
    import subprocess, tempfile, os, sys
    d = tempfile.mkdtemp(prefix='verif_c14_')
    try:
        src = os.path.join(d, 'a.py')
        open(src, 'wb').write(S)
        envv = dict(os.environ)
        envv.pop('PYMINIFY_FORCE_BEST_EFFORT', None)
        if force_set:
            envv['PYMINIFY_FORCE_BEST_EFFORT'] = force_val
        cmd = [sys.executable, '-m', 'python_minifier']
        stdin = None
        if mode <= 2:
            cmd.append(src)
        else:
            cmd.append('-'); stdin = S
        if mode in (1, 4):
            cmd += ['--output', os.path.join(d, 'o.py')]
        if mode == 2:
            cmd.append('--in-place')
        p = subprocess.run(cmd, input=stdin, capture_output=True, env=envv, cwd=d)
        if p.returncode != 0:
            return {'violated': False, 'detail': 'CLI rejected the source (rc=%d): not a parseable module' % p.returncode}
        if mode in (0, 3):
            out = p.stdout
        elif mode in (1, 4):
            out = open(os.path.join(d, 'o.py'), 'rb').read()
        else:
            out = open(src, 'rb').read()
        force = force_set and force_val != ''
        bad = (not force) and len(out) > len(S)
        return {'violated': bad, 'detail': 'mode=%s source=%r emitted=%r' % (MODES[mode], S, out)}
    finally:
        import shutil
        shutil.rmtree(d, ignore_errors=True)


def obligations(tier, seed):
    n = 3 if tier == 'quick' else 4
    k = 2 if tier == 'quick' else 3
    t = 240 if tier == 'quick' else 1500
    return [
        dict(name='C14.size_rule.main', fn='size_rule',
             shards=[['mode == %d' % md, 'len(S) <= %d' % n, 'len(m) <= %d' % k] for md in range(5)], timeout=t,
             bounds='|S| <= %d bytes, |m| <= %d code points, override absent/any 0-1 char string, mode=%s' % (n, k, MODES)),
        dict(name='C14.size_rule.twin', fn='size_rule_twin', shards=[['mode == %d' % md] for md in (0, 2)], timeout=t,
             expect='refuted', bounds='reachability twin (pass-through branch reachable)'),
        dict(name='C14.two_identical_files', fn='two_identical_files', shards=[['first_dir == %s' % b] for b in (True, False)], timeout=t,
             bounds='three files, two byte-identical, |S|,|T| <= 3 bytes, |m| <= 2 code points, in-place'),
        dict(name='C14.do_minify', fn='do_minify_rule', shards=[['len(S) <= %d' % (n + 1), 'len(m) <= %d' % (k + 1)]],
             timeout=t, bounds='|S| <= %d, |m| <= %d' % (n + 1, k + 1)),
    ]
