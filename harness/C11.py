"""C11 - output depends only on source, options and interpreter version (partly).  DESIGN.md section C11."""
from harness.renamekern import *   # noqa: F401,F403
from harness import C03 as _c03
from vf import skeletons

META = dict(_c03.META)
META['bounds'] = '2-call histories sharing the caller\'s preserve_locals / preserve_globals list objects and the default ' \
    'RemoveAnnotationsOptions instance: call 1 on a skeleton with a literal __all__ list, call 2 on any skeleton, symbolic ' \
    'identifiers and preserved name of one fixed length; set iteration order of every string-valued set in mapper/renamer/' \
    'bind_names as a symbolic rotation (0-3) and reversal of insertion order'
META['outside'] = 'real PYTHONHASHSEED sweeps and concurrent threads (CrossHair does not model threads; a cross-process sweep is ' \
    'concrete execution); the {namespace} set literal in reservation_scope holds AST nodes (identity hash, not seed dependent) ' \
    'and cannot be rebound; histories longer than 2 calls'
META['stubs'] = list(_c03.META['stubs']) + ['set in rename/mapper, renamer, bind_names -> NondetSet (harness-chosen iteration order)']


def selftest(tier):
    return renamekern_selftest(tier)


def obligations(tier, seed):
    import random
    t = 240 if tier == 'quick' else 1200
    rnd = random.Random(seed)
    n = len(skeletons.TEMPLATES)
    k2s = list(range(n))
    rnd.shuffle(k2s)
    k2s = k2s[:6] if tier == 'quick' else k2s
    hist = []
    for i, k2 in enumerate(k2s):
        k1s = [i % 3]
        for k1 in k1s:
            hist.append(['k1 == %d' % k1, 'k2 == %d' % k2, 'len(A) == 3 and len(P) == 3',
                         '"." not in A', 'rg == %s' % (i % 2 == 0)])
    # set_order: the string sets of the renamer are global_names / nonlocal_names (global and nonlocal statements, names
    # loaded in class bodies) and assigned_names: the quick tier takes every skeleton with a global/nonlocal statement or a
    # class body plus two others; thorough takes all
    order = []
    setty = [k for k in range(n) if any(w in skeletons.TEMPLATES[k][1] for w in ('global ', 'nonlocal '))]
    classy = [k for k in range(n) if 'class ' in skeletons.TEMPLATES[k][1] and k not in setty]
    chosen = (setty + classy[(seed % 2)::2] + [k for k in k2s if k not in setty and k not in classy][:1]) if tier == 'quick' else list(range(n))
    for i, k in enumerate(chosen):
        for rg in ((bool((i + seed) % 2),) if 'global ' not in skeletons.TEMPLATES[k][1] else (True, False)):
            order.append(['k == %d' % k, 'len(A) == 3 and len(B) == 3 and len(C) == 3', '"." not in A and "." not in B and "." not in C', 'rg == %s' % rg]
                         + (["C == 'ccc'"] if tier == 'quick' else []))
    return [
        dict(name='C11.history', fn='history', shards=hist, timeout=t, bounds='see META'),
        dict(name='C11.set_order', fn='set_order', shards=order, timeout=t, bounds='see META'),
    ]
