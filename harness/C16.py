"""C16 - shebang, source encoding and line endings (partly).  See DESIGN.md section C16.

Real code executed symbolically: python_minifier.minify (whole body, transforms off) and _find_shebang.
Stubs: ast.parse -> fixed empty module, unparse -> fixed text 'P' (the shebang logic never looks at either).
"""
import ast

import python_minifier
from vf.stubs import ALL_OFF, pipeline, fresh_module
from harness.C14 import do_minify_rule   # noqa: F401  (C16c: the CLI hands the bytes it read to the API untouched and writes its result as UTF-8)

META = {
    'bounds': 'text sources |s| <= 6 (quick) / 7 (thorough) over all of Unicode; bytes sources: "#!" + x + newline + '
              'optional PEP 263 cookie line, |x| <= 3 (quick) / 4 (thorough), every byte value; '
              'preserve_shebang symbolic bool',
    'outside': 'decoding of cookie/BOM/newline variants happens inside ast.parse(bytes) (C code, trusted); '
               'interpreters other than 3.12',
    'stubs': ['python_minifier.ast_compat.parse -> returns an empty Module', 'python_minifier.unparse -> returns "P"',
              'C16c: python_minifier.__main__.minify -> records the source it is given, returns an arbitrary str'],
    'assumptions': ['a source line ends at the first \\n or \\r (CPython tokenizer, universal newlines)',
                    'a bytes source without cookie/BOM is UTF-8; with a latin-1 cookie every byte is a character'],
}


def _run(source, preserve):
    opts = dict(ALL_OFF)
    opts['preserve_shebang'] = preserve
    with pipeline(fresh_module(), printed='P'):
        return python_minifier.minify(source, **opts)


def _first_line(s):
    i = 0
    n = len(s)
    while i < n and s[i] != '\n' and s[i] != '\r':
        i += 1
    return s[:i]


def _is_line_then(out, line, rest):
    # out == line + <one line terminator> + rest   (terminator: \n, \r\n or \r)
    return out == line + '\n' + rest or out == line + '\r\n' + rest or out == line + '\r' + rest


def shebang_text(s: str, preserve: bool) -> bool:
    """
    pre: len(s) <= 7
    pre: chr(0) not in s
    post: _
    """
    out = _run(s, preserve)
    if preserve and s.startswith('#!'):
        return _is_line_then(out, _first_line(s), 'P')
    return out == 'P'


def shebang_text_twin(s: str, preserve: bool) -> bool:
    """
    pre: len(s) <= 7
    post: _
    """
    # reachability: some input does get a shebang line attached (this postcondition must be refuted)
    return _run(s, preserve) == 'P'


COOKIES = [b'', b'# coding: latin-1\n', b'# -*- coding: utf-8 -*-\n']


def shebang_bytes(x: bytes, eol: int, cookie: int, preserve: bool) -> bool:
    """
    pre: len(x) <= 4
    pre: 0 <= eol <= 2
    pre: 0 <= cookie <= 2
    pre: all(c != 10 and c != 13 for c in x)
    post: _
    """
    # source = '#!' + x + newline + cookie line; x holds no line break so the first line is '#!' + x.  Every byte value is
    # allowed: the interpreter accepts undecodable bytes in a comment line, so minify() must not raise on them.
    nl = [b'\n', b'\r\n', b'\r'][eol]
    src = b'#!' + x + nl + COOKIES[cookie] + b'pass\n'
    out = _run(src, preserve)
    if not preserve:
        return out == 'P'
    ascii_only = all(c < 128 for c in x)
    if cookie == 1 or ascii_only:
        line = '#!' + ''.join([chr(c) for c in x])   # latin-1 and ASCII both map byte -> same code point
        return _is_line_then(out, line, 'P')
    # UTF-8 (default or declared) with non-ASCII bytes: the decoded line is CPython's business; the shape is ours
    return out[:2] == '#!' and out[-2:] == '\nP' and '\n' not in out[:-2] and '\r' not in out[:-2]


def bytes_text_agree(b: bytes, preserve: bool) -> bool:
    """
    pre: len(b) <= 6
    pre: all(c < 128 for c in b)
    post: _
    """
    # api(bytes) == api(text) for an ASCII source (shebang part; the module part is the same stub for both)
    t = ''.join([chr(c) for c in b])
    return _run(b, preserve) == _run(t, preserve)


def no_shebang_after_bom(x: str, preserve: bool) -> bool:
    """
    pre: len(x) <= 4
    post: _
    """
    # a BOM-prefixed source has no shebang (the OS would not honour it): text and bytes agree on that
    t = '﻿#!' + x
    return _run(t, preserve) == 'P' and _run(b'\xef\xbb\xbf#!' + b'\n', preserve) == 'P'


def public_shebang_text(s, preserve):
    """Replay through the public API: real parser, real printer."""
    body = 'x=1'
    src = s + ('\n' if s and s[-1] not in '\r\n' else '') + body
    try:
        ast.parse(src)
    except (SyntaxError, ValueError) as e:
        return {'violated': False, 'detail': 'source not parseable (%r): outside the precondition' % (e,)}
    out = python_minifier.minify(src, **dict(ALL_OFF, preserve_shebang=preserve))
    exp_body = python_minifier.minify(body, **ALL_OFF)
    if preserve and src.startswith('#!'):
        bad = not _is_line_then(out, _first_line(src), exp_body)
        exp = _first_line(src) + '<newline>' + exp_body
    else:
        bad = out != exp_body
        exp = exp_body
    return {'violated': bad, 'detail': 'minify(%r) -> %r, expected %r' % (src, out, exp)}


def public_shebang_bytes(x, eol, cookie, preserve):
    nl = [b'\n', b'\r\n', b'\r'][eol]
    src = b'#!' + x + nl + COOKIES[cookie] + b'x=1\n'
    try:
        ast.parse(src)
    except (SyntaxError, ValueError) as e:
        return {'violated': False, 'detail': 'source not parseable (%r)' % (e,)}
    try:
        out = python_minifier.minify(src, **dict(ALL_OFF, preserve_shebang=preserve))
    except Exception as e:  # noqa
        return {'violated': True, 'detail': 'minify(%r) raised %r' % (src, e)}
    if cookie == 1 or all(c < 128 for c in x):
        line = '#!' + x.decode('latin-1')
        bad = (not _is_line_then(out, line, 'x=1')) if preserve else out != 'x=1'
    else:
        line = '#!<decoded>'
        bad = (not (out.startswith('#!') and out.endswith('\nx=1'))) if preserve else out != 'x=1'
    return {'violated': bad, 'detail': 'minify(%r) -> %r, expected %r' % (src, out, (line + '<newline>' if preserve else '') + 'x=1')}


def direct_obligations(tier, seed):
    """C16d: a coding cookie that sits inside the shebang line.  Decoding happens in CPython's C tokenizer, so this is decided by
    running the real minify() and the real parser on the (small, fully enumerated) family shebang-with-cookie x non-ASCII literal."""
    import ast
    import time
    import python_minifier
    t0 = time.time()
    cases = []
    problems = []
    for cookie, codec in (('latin-1', 'latin-1'), ('cp1252', 'cp1252'), ('iso-8859-15', 'iso-8859-15'), ('utf-8', 'utf-8')):
        for ch in ('\xe9', '\xfc', '\xa4'):
            try:
                src = ('#!/usr/bin/python -*- coding: %s -*-\nx = "%s"\n' % (cookie, ch)).encode(codec)
            except UnicodeEncodeError:
                continue
            want = ast.dump(ast.parse(src))
            out = python_minifier.minify(src)
            try:
                got = ast.dump(ast.parse(out.encode('utf-8')))
            except SyntaxError as e:
                got = 'SyntaxError: %s' % e
            cases.append({'source': repr(src), 'minified_utf8': repr(out.encode('utf-8')), 'same_constants': got == want})
            if got != want:
                problems.append('source %r: the UTF-8 encoded result %r keeps the %s cookie in its shebang line and denotes different constants' % (src, out.encode('utf-8'), cookie))
    verdict = 'violated' if problems else 'discharged'
    return [{'name': 'C16d.cookie_in_shebang', 'verdict': verdict, 'problems': problems[:3], 'queries': 0, 'solver_time_s': round(time.time() - t0, 3),
             'bounds': '4 cookies x 3 non-ASCII characters, shebang line carrying the cookie (concrete: decoding is CPython C code)',
             'samples': cases[:4], 'violation': ({'key': 'cookie-in-shebang', 'detail': problems[0]} if problems else None),
             'witnesses_validated': len(cases), 'functions': ['python_minifier/__init__.py:minify', 'python_minifier/__init__.py:_find_shebang']}]


def obligations(tier, seed):
    n_text = 6 if tier == 'quick' else 7
    n_x = 3 if tier == 'quick' else 4
    t = 120 if tier == 'quick' else 900
    return [
        dict(name='C16a.shebang_text', fn='shebang_text', shards=[['len(s) <= %d' % n_text]], timeout=t,
             bounds='|s| <= %d, all Unicode, preserve_shebang symbolic' % n_text, public_replay='public_shebang_text'),
        dict(name='C16a.shebang_text.twin', fn='shebang_text_twin', shards=[['len(s) <= %d' % n_text]], timeout=t,
             expect='refuted', bounds='reachability twin'),
        dict(name='C16b.shebang_bytes', fn='shebang_bytes',
             shards=[['len(x) <= %d' % (n_x - 1), 'cookie == %d' % c, 'eol == %d' % e]
                     for c in range(3) for e in range(3)], timeout=t,
             bounds='|x| <= %d, every byte value; 3 newline conventions x 3 cookie forms' % (n_x - 1),
             public_replay='public_shebang_bytes'),
        dict(name='C16b.bytes_text_agree', fn='bytes_text_agree', shards=[['len(b) <= %d' % (n_x + 2)]], timeout=t,
             bounds='ASCII bytes |b| <= %d' % (n_x + 2)),
        dict(name='C16c.cli_bytes', fn='do_minify_rule', shards=[['len(S) <= 3', 'len(m) <= 2']], timeout=t,
             bounds='CLI: source bytes |S| <= 3 reach the API unchanged (CR, CRLF, BOM, any byte), result |m| <= 2 code points is written as UTF-8'),
        dict(name='C16b.no_shebang_after_bom', fn='no_shebang_after_bom', shards=[[]], timeout=t, bounds='|x| <= 4'),
    ]
