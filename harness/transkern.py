"""C05 kernels: each real transformer applied alone to a small neighbourhood whose shape is chosen by structure
parameters and whose names / constants are symbolic, compared with a reference implementation of the *documented*
rewrite (written from docs/source/transforms/*.rst, not from the code).
"""
import ast
import copy

from python_minifier.ast_annotation import add_parent
from python_minifier.rename import add_namespace
from harness.renamekern import trees_equal
from vf.stubs import untraced, bits_index, decode_index, mod, patched, builtins_stubbed, deterministic_node_hash


def prep(module):
    ast.fix_missing_locations(module)
    add_parent(module)
    add_namespace(module)
    return module


def name(i, ctx=None):
    return ast.Name(id=i, ctx=ctx or ast.Load())


def zero():
    return ast.Expr(value=ast.Constant(value=0))


# --- statement kinds for suites ---------------------------------------------------------------------------------
STMT_KINDS = [
    lambda: ast.Pass(),                                                             # 0
    lambda: ast.Expr(value=ast.Call(func=name('a'), args=[], keywords=[])),        # 1 a()
    lambda: ast.Assert(test=name('t'), msg=None),                                   # 2
    lambda: ast.Expr(value=ast.Constant(value='text')),                             # 3 literal str statement
    lambda: ast.Expr(value=ast.Constant(value=7)),                                  # 4 literal number statement
    lambda: ast.If(test=name('__debug__'), body=[ast.Expr(value=name('d'))], orelse=[]),   # 5 debug block
    lambda: ast.Assign(targets=[name('v', ast.Store())], value=ast.Constant(value=1)),     # 6
    lambda: ast.Expr(value=ast.Constant(value=Ellipsis)),                           # 7 ... statement (not a removable literal)
    lambda: ast.Expr(value=ast.Constant(value=None)),                               # 8
    lambda: ast.Expr(value=ast.Constant(value=b'x')),                               # 9
]
N_STMT = len(STMT_KINDS)

PARENT_KINDS = ['module', 'def', 'class', 'if_body', 'if_else', 'for_body', 'for_else', 'while_body', 'with', 'try_body',
                'except', 'try_else', 'finally', 'trystar_except', 'match_case', 'async_def', 'nested_if_in_def']
N_PARENT = len(PARENT_KINDS)


def keep():
    return [ast.Expr(value=ast.Call(func=name('k'), args=[], keywords=[]))]


def build_suite_program(pk, kinds):
    """A module in which the statement list `kinds` is the suite of the parent kind pk."""
    suite = [STMT_KINDS[k]() for k in kinds]
    p = PARENT_KINDS[pk]
    noargs = ast.arguments(posonlyargs=[], args=[], vararg=None, kwonlyargs=[], kw_defaults=[], kwarg=None, defaults=[])
    if p == 'module':
        body = suite
    elif p == 'def':
        body = [ast.FunctionDef(name='f', args=noargs, body=suite, decorator_list=[], returns=None)]
    elif p == 'async_def':
        body = [ast.AsyncFunctionDef(name='f', args=noargs, body=suite, decorator_list=[], returns=None)]
    elif p == 'class':
        body = [ast.ClassDef(name='K', bases=[], keywords=[], body=suite, decorator_list=[])]
    elif p == 'if_body':
        body = [ast.If(test=name('c'), body=suite, orelse=[])]
    elif p == 'if_else':
        body = [ast.If(test=name('c'), body=keep(), orelse=suite)]
    elif p == 'for_body':
        body = [ast.For(target=name('i', ast.Store()), iter=name('c'), body=suite, orelse=[])]
    elif p == 'for_else':
        body = [ast.For(target=name('i', ast.Store()), iter=name('c'), body=keep(), orelse=suite)]
    elif p == 'while_body':
        body = [ast.While(test=name('c'), body=suite, orelse=[])]
    elif p == 'with':
        body = [ast.With(items=[ast.withitem(context_expr=name('c'), optional_vars=None)], body=suite)]
    elif p == 'try_body':
        body = [ast.Try(body=suite, handlers=[ast.ExceptHandler(type=name('E'), name=None, body=keep())], orelse=[], finalbody=[])]
    elif p == 'except':
        body = [ast.Try(body=keep(), handlers=[ast.ExceptHandler(type=name('E'), name=None, body=suite)], orelse=[], finalbody=[])]
    elif p == 'try_else':
        body = [ast.Try(body=keep(), handlers=[ast.ExceptHandler(type=name('E'), name=None, body=keep())], orelse=suite, finalbody=[])]
    elif p == 'finally':
        body = [ast.Try(body=keep(), handlers=[], orelse=[], finalbody=suite)]
    elif p == 'trystar_except':
        body = [ast.TryStar(body=keep(), handlers=[ast.ExceptHandler(type=name('E'), name=None, body=suite)], orelse=[], finalbody=[])]
    elif p == 'match_case':
        body = [ast.Match(subject=name('c'), cases=[ast.match_case(pattern=ast.MatchAs(pattern=None, name=None), guard=None, body=suite)])]
    else:
        body = [ast.FunctionDef(name='f', args=noargs, body=[ast.If(test=name('c'), body=suite, orelse=[])], decorator_list=[], returns=None)]
    return ast.Module(body=body, type_ignores=[])


# --- reference rewrites ------------------------------------------------------------------------------------------
def _suites(node):
    """(owner, field) for every statement list below node."""
    for n in ast.walk(node):
        for f in ('body', 'orelse', 'finalbody'):
            v = getattr(n, f, None)
            if isinstance(v, list) and (v and isinstance(v[0], ast.stmt) or (f == 'body' and isinstance(n, (ast.Module,)))):
                yield n, f


def ref_filter_suites(module, removable):
    """Documented suite rewrite: drop the removable statements; a block that would become empty keeps a single `0`
    expression statement, except the module body."""
    for owner, f in list(_suites(module)):
        old = getattr(owner, f)
        new = []
        for st in old:
            r = removable(st)
            if r is None:
                new.append(st)
            else:
                new.extend(r)
        if not new and not isinstance(owner, ast.Module):
            new = [zero()]
        setattr(owner, f, new)
    return module


def is_literal_stmt(st):
    return isinstance(st, ast.Expr) and isinstance(st.value, ast.Constant) and (
        st.value.value is None or isinstance(st.value.value, (bool, int, float, complex, str, bytes)))


def uses_doc(module):
    for n in ast.walk(module):
        if isinstance(n, ast.Attribute) and n.attr == '__doc__':
            return True
        if isinstance(n, ast.Name) and n.id == '__doc__':
            return True
    return False


def is_debug_test(t):
    """The four documented spellings."""
    if isinstance(t, ast.Name):
        return t.id == '__debug__'
    if isinstance(t, ast.Compare) and len(t.ops) == 1 and isinstance(t.left, ast.Name) and t.left.id == '__debug__':
        c = t.comparators[0]
        if not isinstance(c, ast.Constant):
            return False
        if isinstance(t.ops[0], ast.Is):
            return c.value is True
        if isinstance(t.ops[0], ast.IsNot):
            return c.value is False
        if isinstance(t.ops[0], ast.Eq):
            return c.value is True
    return False


def ref_remove_debug(module):
    """What python -O runs: the `if` on __debug__ is gone, its else branch (if any) takes its place."""
    def removable(st):
        if isinstance(st, ast.If) and is_debug_test(st.test):
            out = []
            for s2 in st.orelse:
                r = removable(s2)
                if r is None:
                    out.append(s2)
                else:
                    out.extend(r)
            return out
        return None
    # inner suites first so that spliced else branches are already rewritten
    return ref_filter_suites(module, removable)


# --- kernels --------------------------------------------------------------------------------------------------------
def _kinds(n, k0, k1, k2):
    return [k0, k1, k2][:n]


def suite_kernel(which: int, pk: int, n: int, k0: int, k1: int, k2: int) -> bool:
    """
    pre: 0 <= which <= 3
    pre: 0 <= pk < N_PARENT
    pre: 0 <= n <= 3
    pre: 0 <= k0 < N_STMT and 0 <= k1 < N_STMT and 0 <= k2 < N_STMT
    pre: (n > 0 or k0 == 0) and (n > 1 or k1 == 0) and (n > 2 or k2 == 0)
    pre: n > 0 or PARENT_KINDS[pk] == 'module'
    post: _
    """
    return untraced(_suite_kernel_impl, which, pk, n, k0, k1, k2)


def _suite_kernel_impl(which, pk, n, k0, k1, k2):
    # remove_pass / remove_asserts / remove_debug / remove_literal_statements on every suite shape
    kinds = _kinds(n, k0, k1, k2)
    real = prep(build_suite_program(pk, kinds))
    ref = build_suite_program(pk, kinds)
    if which == 0:
        from python_minifier.transforms.remove_pass import RemovePass
        out = RemovePass()(real)
        exp = ref_filter_suites(ref, lambda st: [] if isinstance(st, ast.Pass) else None)
    elif which == 1:
        from python_minifier.transforms.remove_asserts import RemoveAsserts
        out = RemoveAsserts()(real)
        exp = ref_filter_suites(ref, lambda st: [] if isinstance(st, ast.Assert) else None)
    elif which == 2:
        from python_minifier.transforms.remove_debug import RemoveDebug
        out = RemoveDebug()(real)
        exp = ref_remove_debug(ref)
    else:
        from python_minifier.transforms.remove_literal_statements import RemoveLiteralStatements
        out = RemoveLiteralStatements()(real)
        exp = ref if uses_doc(ref) else ref_filter_suites(ref, lambda st: [] if is_literal_stmt(st) else None)
    return trees_equal(out, exp)


CMP_OPS = [lambda: ast.Is(), lambda: ast.IsNot(), lambda: ast.Eq(), lambda: ast.NotEq(), lambda: ast.In()]
CMP_CONSTS = [True, False, None, 1, 0]


def debug_kernel(shape: int, left_id: str, op: int, ck: int, else_kind: int, in_def: bool) -> bool:
    """
    pre: 0 <= shape <= 4
    pre: 0 <= op <= 4 and 0 <= ck <= 4 and 0 <= else_kind <= 2
    pre: len(left_id) <= 9
    post: _
    """
    # RemoveDebug.can_remove + suite on every test shape, with a symbolic left identifier
    def test():
        if shape == 0:
            return name(left_id)
        if shape == 1:
            return ast.Compare(left=name(left_id), ops=[CMP_OPS[op]()], comparators=[ast.Constant(value=CMP_CONSTS[ck])])
        if shape == 2:
            return ast.Compare(left=ast.Attribute(value=name('m'), attr=left_id, ctx=ast.Load()), ops=[CMP_OPS[op]()],
                               comparators=[ast.Constant(value=CMP_CONSTS[ck])])
        if shape == 3:
            return ast.Compare(left=name(left_id), ops=[CMP_OPS[op](), ast.Is()], comparators=[ast.Constant(value=CMP_CONSTS[ck]), ast.Constant(value=True)])
        return ast.UnaryOp(op=ast.Not(), operand=name(left_id))

    def build():
        if else_kind == 0:
            orelse = []
        elif else_kind == 1:
            orelse = [ast.Expr(value=name('e'))]
        else:
            orelse = [ast.If(test=name('c2'), body=[ast.Expr(value=name('e'))], orelse=[ast.Expr(value=name('g'))])]
        st = ast.If(test=test(), body=[ast.Expr(value=name('d'))], orelse=orelse)
        rest = [ast.Expr(value=name('after'))]
        if in_def:
            noargs = ast.arguments(posonlyargs=[], args=[], vararg=None, kwonlyargs=[], kw_defaults=[], kwarg=None, defaults=[])
            return ast.Module(body=[ast.FunctionDef(name='f', args=noargs, body=[st], decorator_list=[], returns=None)] + rest, type_ignores=[])
        return ast.Module(body=[st] + rest, type_ignores=[])

    from python_minifier.transforms.remove_debug import RemoveDebug
    out = RemoveDebug()(prep(build()))
    exp = ref_remove_debug(build())
    return trees_equal(out, exp)


def object_kernel(b0: str, b1: str, shape: int) -> bool:
    """
    pre: 0 <= shape <= 4
    pre: len(b0) <= 6 and len(b1) <= 6
    post: _
    """
    # RemoveObject: `object` is dropped from the base list only (not keywords, attributes, calls, nested positions)
    def build():
        kw = []
        if shape == 0:
            bases = [name(b0)]
        elif shape == 1:
            bases = [name(b0), name(b1)]
        elif shape == 2:
            bases = [ast.Attribute(value=name('m'), attr=b0, ctx=ast.Load()), name(b1)]
        elif shape == 3:
            bases = [ast.Call(func=name(b0), args=[name(b1)], keywords=[])]
            kw = [ast.keyword(arg='metaclass', value=name(b1))]
        else:
            bases = [ast.Subscript(value=name(b0), slice=name(b1), ctx=ast.Load())]
        inner = ast.ClassDef(name='In', bases=[name(b1)], keywords=[], body=[ast.Assign(targets=[name('x', ast.Store())], value=name(b0))], decorator_list=[])
        return ast.Module(body=[ast.ClassDef(name='K', bases=bases, keywords=kw, body=[inner], decorator_list=[name(b0)])], type_ignores=[])

    from python_minifier.transforms.remove_object_base import RemoveObject
    out = RemoveObject()(prep(build()))
    exp = build()
    for n in ast.walk(exp):
        if isinstance(n, ast.ClassDef):
            n.bases = [b for b in n.bases if not (isinstance(b, ast.Name) and b.id == 'object')]
    return trees_equal(out, exp)


def return_none_kernel(v0: int, v1: int, nested: bool, is_async: bool) -> bool:
    """
    pre: 0 <= v0 <= 3 and 0 <= v1 <= 3
    post: _
    """
    return untraced(_return_none_kernel_impl, v0, v1, nested, is_async)


def _return_none_kernel_impl(v0, v1, nested, is_async):
    # `return None` -> `return`; a trailing bare return is dropped (a function body never becomes empty)
    vals = [None, 'none', 'name', 'zero']

    def ret(v):
        if vals[v] is None:
            return ast.Return(value=None)
        if vals[v] == 'none':
            return ast.Return(value=ast.Constant(value=None))
        if vals[v] == 'name':
            return ast.Return(value=name('None_'))
        return ast.Return(value=ast.Constant(value=0))

    def build():
        noargs = ast.arguments(posonlyargs=[], args=[], vararg=None, kwonlyargs=[], kw_defaults=[], kwarg=None, defaults=[])
        first = ret(v0)
        if nested:
            first = ast.If(test=name('c'), body=[ret(v0)], orelse=[])
        cls = ast.AsyncFunctionDef if is_async else ast.FunctionDef
        lam = ast.Assign(targets=[name('g', ast.Store())], value=ast.Lambda(args=noargs, body=ast.Constant(value=None)))
        return ast.Module(body=[cls(name='f', args=noargs, body=[first, ret(v1)], decorator_list=[], returns=None), lam], type_ignores=[])

    from python_minifier.transforms.remove_explicit_return_none import RemoveExplicitReturnNone
    out = RemoveExplicitReturnNone()(prep(build()))
    exp = build()
    for n in ast.walk(exp):
        if isinstance(n, ast.Return) and isinstance(n.value, ast.Constant) and n.value.value is None:
            n.value = None
    for n in ast.walk(exp):
        if isinstance(n, (ast.FunctionDef, ast.AsyncFunctionDef)):
            if n.body and isinstance(n.body[-1], ast.Return) and n.body[-1].value is None:
                n.body.pop()
            if not n.body:
                n.body = [zero()]
    return trees_equal(out, exp)


def imports_kernel(n: int, k0: int, k1: int, k2: int, k3: int, m0: str, m1: str, lv0: int, lv1: int) -> bool:
    """
    pre: 0 <= n <= 4
    pre: 0 <= k0 <= 4 and 0 <= k1 <= 4 and 0 <= k2 <= 4 and 0 <= k3 <= 4
    pre: len(m0) <= 3 and len(m1) <= 3
    pre: 0 <= lv0 <= 2 and 0 <= lv1 <= 2
    post: _
    """
    # CombineImports: adjacent `import` statements are concatenated in order; adjacent `from M import` statements with
    # the same module *and* level are concatenated; star imports and anything else break a run
    kinds = [k0, k1, k2, k3][:n]
    counter = [0]

    def mk(kd):
        counter[0] += 1
        nm = 'n%d' % counter[0]
        if kd == 0:
            return ast.Import(names=[ast.alias(name=nm, asname=None)])
        if kd == 1:
            return ast.ImportFrom(module=m0, names=[ast.alias(name=nm, asname=None)], level=lv0)
        if kd == 2:
            return ast.ImportFrom(module=m1, names=[ast.alias(name=nm, asname=None)], level=lv1)
        if kd == 3:
            return ast.ImportFrom(module=m0, names=[ast.alias(name='*', asname=None)], level=0)
        return ast.Expr(value=name('x'))

    def build():
        counter[0] = 0
        return ast.Module(body=[mk(kd) for kd in kinds], type_ignores=[])

    from python_minifier.transforms.combine_imports import CombineImports
    out = CombineImports()(prep(build()))
    # The documented rewrite merges, it never reorders: the sequence of (statement kind, module, level, imported name)
    # must be unchanged; a merged statement has one module and level by construction; `*` stays alone.
    def atoms(body):
        seq = []
        for st in body:
            if isinstance(st, ast.Import):
                for a in st.names:
                    seq.append(('import', None, 0, a.name, a.asname))
            elif isinstance(st, ast.ImportFrom):
                for a in st.names:
                    if a.name == '*' and len(st.names) != 1:
                        return None
                    seq.append(('from', st.module, st.level, a.name, a.asname))
            else:
                seq.append(('stmt', None, 0, ast.dump(st), None))
        return seq
    got = atoms(out.body)
    want = atoms(build().body)
    if got is None or len(got) != len(want):
        return False
    for g, w in zip(got, want):
        if not (g[0] == w[0] and g[1] == w[1] and g[2] == w[2] and g[3] == w[3] and g[4] == w[4]):
            return False
    # "adjacent imports are merged": two neighbouring plain imports never stay separate
    for i in range(len(out.body) - 1):
        if isinstance(out.body[i], ast.Import) and isinstance(out.body[i + 1], ast.Import):
            return False
    return True


def annotations_kernel(where: int, has_value: bool, dec_kind: int, dec: str, base_kind: int, base: str,
                       o_var: bool, o_ret: bool, o_arg: bool, o_cls: bool) -> bool:
    """
    pre: 0 <= where <= 2
    pre: 0 <= dec_kind <= 4 and 0 <= base_kind <= 2
    pre: len(dec) <= 9 and len(base) <= 10
    post: _
    """
    # RemoveAnnotations on an annotated assignment in a module / function / class body, an annotated function signature,
    # with symbolic decorator and base-class names and the four option booleans
    def build():
        ann = ast.AnnAssign(target=name('x', ast.Store()), annotation=name('int'), value=ast.Constant(value=1) if has_value else None, simple=1)
        arg = ast.arg(arg='p', annotation=name('str'))
        args = ast.arguments(posonlyargs=[], args=[arg], vararg=ast.arg(arg='va', annotation=name('A1')), kwonlyargs=[ast.arg(arg='ko', annotation=name('A2'))],
                             kw_defaults=[None], kwarg=ast.arg(arg='kw', annotation=name('A3')), defaults=[])
        fn = ast.FunctionDef(name='f', args=args, body=[ann if where == 1 else ast.Pass()], decorator_list=[], returns=name('R'))
        if where == 0:
            return ast.Module(body=[ann, fn], type_ignores=[])
        if where == 1:
            return ast.Module(body=[fn], type_ignores=[])
        decs = []
        if dec_kind == 1:
            decs = [name(dec)]
        elif dec_kind == 2:
            decs = [ast.Attribute(value=name('dataclasses'), attr=dec, ctx=ast.Load())]
        elif dec_kind == 3:
            decs = [ast.Call(func=name(dec), args=[], keywords=[])]
        elif dec_kind == 4:
            decs = [name('other'), ast.Call(func=ast.Attribute(value=name('dc'), attr=dec, ctx=ast.Load()), args=[], keywords=[])]
        bases = []
        if base_kind == 1:
            bases = [name(base)]
        elif base_kind == 2:
            bases = [name('Other'), ast.Attribute(value=name('typing'), attr=base, ctx=ast.Load())]
        return ast.Module(body=[ast.ClassDef(name='K', bases=bases, keywords=[], body=[ann, fn], decorator_list=decs)], type_ignores=[])

    from python_minifier.transforms.remove_annotations import RemoveAnnotations
    from python_minifier.transforms.remove_annotations_options import RemoveAnnotationsOptions
    opts = RemoveAnnotationsOptions(remove_variable_annotations=o_var, remove_return_annotations=o_ret,
                                    remove_argument_annotations=o_arg, remove_class_attribute_annotations=o_cls)
    out = RemoveAnnotations(opts)(prep(build()))
    exp = build()
    for n in ast.walk(exp):
        if isinstance(n, ast.FunctionDef):
            if o_ret:
                n.returns = None
            if o_arg:
                for a in n.args.args + n.args.kwonlyargs + [n.args.vararg, n.args.kwarg]:
                    a.annotation = None
    sensitive = False
    if where == 2:
        if dec_kind >= 1 and dec == 'dataclass':
            sensitive = True
        if base_kind >= 1 and (base == 'NamedTuple' or base == 'TypedDict'):
            sensitive = True
    remove = (o_cls if where == 2 else o_var) and not sensitive

    def fix(body):
        for i, st in enumerate(body):
            if isinstance(st, ast.AnnAssign):
                if remove:
                    if st.value is not None:
                        body[i] = ast.Assign(targets=[st.target], value=st.value)
                    else:
                        st.annotation = ast.Constant(value=0)
    for n in ast.walk(exp):
        if isinstance(getattr(n, 'body', None), list):
            fix(n.body)
    return trees_equal(out, exp)


def posargs_kernel(np: int, na: int) -> bool:
    """
    pre: 0 <= np <= 2 and 0 <= na <= 2
    post: _
    """
    return untraced(_posargs_kernel_impl, np, na)


def _posargs_kernel_impl(np, na):
    def build():
        po = [ast.arg(arg='p%d' % i, annotation=None) for i in range(np)]
        ar = [ast.arg(arg='a%d' % i, annotation=None) for i in range(na)]
        args = ast.arguments(posonlyargs=po, args=ar, vararg=None, kwonlyargs=[], kw_defaults=[], kwarg=None, defaults=[ast.Constant(value=1)] if (np + na) else [])
        lam = ast.Lambda(args=copy.deepcopy(args), body=ast.Constant(value=0))
        return ast.Module(body=[ast.FunctionDef(name='f', args=args, body=[ast.Return(value=lam)], decorator_list=[], returns=None)], type_ignores=[])
    from python_minifier.transforms.remove_posargs import remove_posargs
    out = remove_posargs(prep(build()))
    exp = build()
    for n in ast.walk(exp):
        if isinstance(n, ast.arguments):
            n.args = n.posonlyargs + n.args
            n.posonlyargs = []
    return trees_equal(out, exp)


EXC_POS = ['raise', 'cause', 'call_arg', 'expr', 'raise_attr']
REBIND = ['none', 'module_assign', 'class_attr', 'function_local', 'global_in_function', 'import_as', 'def_param']


def exception_brackets_kernel(exc: str, nargs: int, has_kw: bool, pos: int, rebind: int, tainted: bool) -> bool:
    """
    pre: 0 <= nargs <= 1 and 0 <= pos <= 4 and 0 <= rebind <= 6
    pre: len(exc) <= 10
    post: _
    """
    # remove_no_arg_exception_call after the real bind_names/resolve_names: brackets are dropped only when raising
    # (as exception or cause) an un-shadowed builtin exception called with no arguments, and never in a tainted module
    import python_minifier
    from vf.stubs import ALL_OFF, pipeline, Capture, fresh_module

    def call():
        return ast.Call(func=name(exc), args=[ast.Constant(value=1)] if nargs else [], keywords=[ast.keyword(arg='k', value=ast.Constant(value=2))] if has_kw else [])

    def build():
        p = EXC_POS[pos]
        if p == 'raise':
            st = ast.Raise(exc=call(), cause=None)
        elif p == 'cause':
            st = ast.Raise(exc=name('e0'), cause=call())
        elif p == 'call_arg':
            st = ast.Raise(exc=ast.Call(func=name('wrap'), args=[call()], keywords=[]), cause=None)
        elif p == 'expr':
            st = ast.Expr(value=call())
        else:
            st = ast.Raise(exc=ast.Call(func=ast.Attribute(value=name('m'), attr=exc, ctx=ast.Load()), args=[], keywords=[]), cause=None)
        noargs = ast.arguments(posonlyargs=[], args=[], vararg=None, kwonlyargs=[], kw_defaults=[], kwarg=None, defaults=[])
        body = []
        r = REBIND[rebind]
        if r == 'module_assign':
            body.append(ast.Assign(targets=[name(exc, ast.Store())], value=name('Mine')))
        elif r == 'class_attr':
            body.append(ast.ClassDef(name='K', bases=[], keywords=[], decorator_list=[], body=[ast.Assign(targets=[name(exc, ast.Store())], value=name(exc))]))
        elif r == 'function_local':
            body.append(ast.FunctionDef(name='g', args=noargs, decorator_list=[], returns=None, body=[ast.Assign(targets=[name(exc, ast.Store())], value=ast.Constant(value=0))]))
        elif r == 'global_in_function':
            body.append(ast.FunctionDef(name='g', args=noargs, decorator_list=[], returns=None,
                                        body=[ast.Global(names=[exc]), ast.Assign(targets=[name(exc, ast.Store())], value=ast.Constant(value=0))]))
        elif r == 'import_as':
            body.append(ast.Import(names=[ast.alias(name='errors', asname=exc)]))
        elif r == 'def_param':
            args = ast.arguments(posonlyargs=[], args=[ast.arg(arg=exc, annotation=None)], vararg=None, kwonlyargs=[], kw_defaults=[], kwarg=None, defaults=[])
            body.append(ast.FunctionDef(name='g', args=args, decorator_list=[], returns=None, body=[ast.Return(value=name(exc))]))
        if tainted:
            body.append(ast.Expr(value=ast.Call(func=name('eval'), args=[ast.Constant(value='1')], keywords=[])))
        body.append(ast.FunctionDef(name='h', args=noargs, decorator_list=[], returns=None, body=[st]))
        return ast.Module(body=body, type_ignores=[])

    tree = build()
    ast.fix_missing_locations(tree)
    deterministic_node_hash(tree)
    cap = Capture()
    opts = dict(ALL_OFF, remove_builtin_exception_brackets=True)
    with builtins_stubbed(), pipeline(tree, capture=cap):
        python_minifier.minify('', **opts)
    exp = build()
    builtin_exc = exc == 'ValueError' or exc == 'KeyError'     # the exception classes of the stubbed builtin namespace
    rebound_at_module = REBIND[rebind] in ('module_assign', 'global_in_function', 'import_as')
    shadowed_local = False    # the raise sits in its own function h: function_local / def_param / class_attr do not shadow it
    if builtin_exc and not rebound_at_module and not shadowed_local and not tainted and nargs == 0 and not has_kw:
        for n in ast.walk(exp):
            if isinstance(n, ast.Raise):
                if isinstance(n.exc, ast.Call) and isinstance(n.exc.func, ast.Name) and n.exc.func.id == exc and not n.exc.args and not n.exc.keywords:
                    n.exc = n.exc.func
                if isinstance(n.cause, ast.Call) and isinstance(n.cause.func, ast.Name) and n.cause.func.id == exc and not n.cause.args and not n.cause.keywords:
                    n.cause = n.cause.func
    if trees_equal(cap.tree, exp):
        return True
    # "only": leaving the brackets in place is always allowed (the code is conservative when the name is rebound anywhere)
    return trees_equal(cap.tree, build())


def literal_doc_kernel(nm: str, as_attr: bool, in_def: bool, how: int) -> bool:
    """
    pre: len(nm) <= 8
    pre: 0 <= how <= 2
    post: _
    """
    # docstrings are kept when the module uses the __doc__ name (as a name or as an attribute; read, augmented or deleted)
    def build():
        use = ast.Attribute(value=name('m'), attr=nm, ctx=ast.Load()) if as_attr else name(nm)
        if how > 0:
            ctx = ast.Store() if how == 1 else ast.Del()
            tgt = ast.Attribute(value=name('m'), attr=nm, ctx=ctx) if as_attr else name(nm, ctx)
            st = ast.AugAssign(target=tgt, op=ast.Add(), value=ast.Constant(value=' more')) if how == 1 else ast.Delete(targets=[tgt])
            noargs = ast.arguments(posonlyargs=[], args=[], vararg=None, kwonlyargs=[], kw_defaults=[], kwarg=None, defaults=[])
            fn = ast.FunctionDef(name='f', args=noargs, decorator_list=[], returns=None,
                                 body=[ast.Expr(value=ast.Constant(value='function doc'))] + ([st] if in_def else []) + [ast.Return(value=ast.Constant(value=1))])
            return ast.Module(body=[ast.Expr(value=ast.Constant(value='module doc')), fn] + ([] if in_def else [st]), type_ignores=[])
        noargs = ast.arguments(posonlyargs=[], args=[], vararg=None, kwonlyargs=[], kw_defaults=[], kwarg=None, defaults=[])
        fn = ast.FunctionDef(name='f', args=noargs, decorator_list=[], returns=None,
                             body=[ast.Expr(value=ast.Constant(value='function doc')), ast.Return(value=use if in_def else ast.Constant(value=1))])
        rest = [] if in_def else [ast.Expr(value=ast.Call(func=name('print'), args=[use], keywords=[]))]
        return ast.Module(body=[ast.Expr(value=ast.Constant(value='module doc')), fn] + rest, type_ignores=[])
    from python_minifier.transforms.remove_literal_statements import RemoveLiteralStatements
    out = RemoveLiteralStatements()(prep(build()))
    ref = build()
    exp = ref if uses_doc(ref) else ref_filter_suites(ref, lambda st: [] if is_literal_stmt(st) else None)
    return trees_equal(out, exp)


def exception_brackets_twin(exc: str) -> bool:
    """
    pre: len(exc) <= 10
    post: _
    """
    # reachability: for some exception name the brackets are dropped (must be refuted)
    import python_minifier
    from vf.stubs import ALL_OFF, pipeline, Capture
    noargs = ast.arguments(posonlyargs=[], args=[], vararg=None, kwonlyargs=[], kw_defaults=[], kwarg=None, defaults=[])
    tree = ast.Module(body=[ast.FunctionDef(name='h', args=noargs, decorator_list=[], returns=None,
                                            body=[ast.Raise(exc=ast.Call(func=name(exc), args=[], keywords=[]), cause=None)])], type_ignores=[])
    ast.fix_missing_locations(tree)
    deterministic_node_hash(tree)
    cap = Capture()
    with builtins_stubbed(), pipeline(tree, capture=cap):
        python_minifier.minify('', **dict(ALL_OFF, remove_builtin_exception_brackets=True))
    return isinstance(cap.tree.body[0].body[0].exc, ast.Call)


# --- C05b: option gating -----------------------------------------------------------------------------------------
STAGES = ['remove_literal_statements', 'combine_imports', 'remove_annotations', 'remove_pass', 'remove_object_base', 'remove_asserts',
          'remove_debug', 'remove_explicit_return_none', 'constant_folding']


def gating(o_lit: bool, o_imp: bool, o_ann: bool, o_pass: bool, o_obj: bool, o_ass: bool, o_dbg: bool, o_ret: bool, o_fold: bool,
           o_exc: bool, o_rl: bool, o_rg: bool, o_hoist: bool, o_pos: bool, tainted: bool) -> bool:
    """
    post: _
    """
    return untraced(_gating_impl, o_lit, o_imp, o_ann, o_pass, o_obj, o_ass, o_dbg, o_ret, o_fold, o_exc, o_rl, o_rg, o_hoist, o_pos, tainted)


def _gating_impl(o_lit, o_imp, o_ann, o_pass, o_obj, o_ass, o_dbg, o_ret, o_fold, o_exc, o_rl, o_rg, o_hoist, o_pos, tainted):
    # real minify() with every stage replaced by a recorder: a stage runs iff its option is on (and, for bracket
    # removal, hoisting and renaming, the module is not tainted), in the documented order, and no other stage runs
    import python_minifier
    import contextlib
    from vf.stubs import pipeline, Capture
    body = [ast.Expr(value=ast.Call(func=name('eval'), args=[ast.Constant(value='1')], keywords=[]))] if tainted else [ast.Expr(value=name('x'))]
    tree = ast.Module(body=body, type_ignores=[])
    ast.fix_missing_locations(tree)
    deterministic_node_hash(tree)
    log = []

    def cls_recorder(label):
        class Rec(object):
            def __init__(self, *a, **k):
                pass

            def __call__(self, module):
                log.append(label)
                return module
        return Rec

    def fn_recorder(label, ret_module=False):
        def rec(module, *a, **k):
            log.append((label, a, k) if (a or k) else label)
            return module if ret_module else None
        return rec

    pm = python_minifier
    names = {'RemoveLiteralStatements': 'remove_literal_statements', 'CombineImports': 'combine_imports', 'RemoveAnnotations': 'remove_annotations',
             'RemovePass': 'remove_pass', 'RemoveObject': 'remove_object_base', 'RemoveAsserts': 'remove_asserts', 'RemoveDebug': 'remove_debug',
             'RemoveExplicitReturnNone': 'remove_explicit_return_none', 'FoldConstants': 'constant_folding'}
    with contextlib.ExitStack() as st:
        for cls, label in names.items():
            st.enter_context(patched(pm, cls, cls_recorder(label)))
        st.enter_context(patched(pm, 'remove_no_arg_exception_call', fn_recorder('remove_exception_brackets')))
        st.enter_context(patched(pm, 'rename_literals', fn_recorder('hoist_literals')))
        st.enter_context(patched(pm, 'remove_posargs', fn_recorder('convert_posargs', True)))
        st.enter_context(patched(pm, 'allow_rename_locals', fn_recorder('allow_rename_locals')))
        st.enter_context(patched(pm, 'allow_rename_globals', fn_recorder('allow_rename_globals')))
        st.enter_context(patched(pm, 'rename', fn_recorder('rename')))
        st.enter_context(builtins_stubbed())
        st.enter_context(pipeline(tree, capture=Capture()))
        pm.minify('', remove_annotations=True if o_ann else False, remove_pass=o_pass, remove_literal_statements=o_lit,
                  combine_imports=o_imp, hoist_literals=o_hoist, rename_locals=o_rl, rename_globals=o_rg, remove_object_base=o_obj,
                  convert_posargs_to_args=o_pos, preserve_shebang=False, remove_asserts=o_ass, remove_debug=o_dbg,
                  remove_explicit_return_none=o_ret, remove_builtin_exception_brackets=o_exc, constant_folding=o_fold)
    opts = [o_lit, o_imp, o_ann, o_pass, o_obj, o_ass, o_dbg, o_ret, o_fold]
    expected = [s for s, o in zip(STAGES, opts) if o]
    if o_exc and not tainted:
        expected.append('remove_exception_brackets')
    got_simple = [e if isinstance(e, str) else e[0] for e in log]
    eff_rl = o_rl and not tainted
    eff_rg = o_rg and not tainted
    expected += ['allow_rename_locals', 'allow_rename_globals']
    if o_hoist and not tainted:
        expected.append('hoist_literals')
    expected.append('rename')
    if o_pos:
        expected.append('convert_posargs')
    if got_simple != expected:
        return False
    for e in log:
        if not isinstance(e, str):
            label, a, k = e
            if label == 'allow_rename_locals' and not (a[0] == eff_rl):
                return False
            if label == 'allow_rename_globals' and not (a[0] == eff_rg):
                return False
            if label == 'rename' and not (k.get('prefix_globals') == (not eff_rg)):
                return False
    return True


SUITE_RADICES = [4, 4, N_PARENT, N_STMT, N_STMT, N_STMT]      # which, n, parent kind, statement kinds (index bits: low = which)


def suite_kernel_b(b0: bool, b1: bool, b2: bool, b3: bool, b4: bool, b5: bool, b6: bool, b7: bool, b8: bool, b9: bool, b10: bool, b11: bool, b12: bool, b13: bool, b14: bool, b15: bool, b16: bool, b17: bool, b18: bool) -> bool:
    """
    post: _
    """
    # suite_kernel with every structure parameter taken from 19 boolean parameters (b0-b1 which, b2-b3 n, rest parent/kinds)
    return untraced(_suite_b_impl, bits_index(b0, b1, b2, b3, b4, b5, b6, b7, b8, b9, b10, b11, b12, b13, b14, b15, b16, b17, b18))


def _suite_b_impl(idx):
    which = idx & 3
    n = (idx >> 2) & 3
    d = decode_index(idx >> 4, [N_PARENT] + [N_STMT] * n)
    if d is None:
        return True
    pk = d[0]
    ks = d[1:] + [0] * (3 - n)
    if n == 0 and PARENT_KINDS[pk] != 'module':
        return True
    return _suite_kernel_impl(which, pk, n, ks[0], ks[1], ks[2])
