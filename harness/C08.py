"""C08 - every compilable module is minified without error into a compilable module.  DESIGN.md section C08."""
from harness.printkern import *     # noqa: F401,F403
from harness.strkern import *       # noqa: F401,F403
from harness import printkern as pk, strkern

META = {
    'bounds': 'C08a: %d statement templates / %d expression slots x child kinds x option vectors (default, all off, all on, every single '
              'deviation from default and from all-off: %d vectors), admitted only if compile() accepts the source; C08b: '
              'TokenPrinter.integer for every digit count 1..6000 (repr stubbed by its documented ValueError contract), f-string nested '
              'str/bytes printers total on 3.12 for |s| <= 2/3; C08c: parser rejection with 6 symbolic options' % (pk.N_STMT, pk.N_SLOT, pk.N_OV),
    'outside': 'sources the grammar does not generate; recursion limits on very deep trees; interpreters other than 3.12 (3.11 in thorough)',
    'stubs': ['repr / hex in token_printer (integer_total only)', 'eval in ministring / f_string -> R-lit (string kernels)',
              'ast.parse -> raises SyntaxError (C08c)'],
    'assumptions': ['compile() of CPython decides "compilable"'],
}


def selftest(tier):
    return strkern.selftest_rlit(2000 if tier == 'quick' else 50000)


def fstr_bytes_one_total(v: int) -> bool:
    """
    pre: 0 <= v <= 255
    post: _
    """
    from harness.strkern import _fstr_bytes
    return _fstr_bytes(bytes([v]), 15, True)


def one_byte_known(v):
    return v == 0 or v == 13 or v == 92 or v >= 128


def obligations(tier, seed):
    import random
    t = 400 if tier == 'quick' else 3000
    n = 2 if tier == 'quick' else 3
    rnd = random.Random(seed)
    cs = sorted(rnd.sample(range(pk.N_CHILD), 10)) if tier == 'quick' else None
    csel = 'c in %r' % (tuple(cs),) if cs else 'c >= 0'
    ovs_q = '(0, 2)' if tier == 'quick' else '(0, 1, 2)'
    obs = [
        dict(name='C08a.minify_total', fn='minify_total', timeout=t, shards=[['s %% 16 == %d' % i, csel, 'ov in %s' % ovs_q] for i in range(16)],
             bounds='statement templates x %s child kinds x option vectors %s' % ('10 seeded' if cs else 'all', ovs_q)),
        dict(name='C08a.minify_total_expr', fn='minify_total_expr', timeout=t, public_replay='public_minify_total_expr',
             shards=[['p %% 16 == %d' % i, csel if tier == 'quick' else 'c >= 0', 'ov == 0'] for i in range(16)],
             bounds='expression slots x child kinds, default options'),
        dict(name='C08a.option_vectors', fn='minify_total', timeout=t,
             shards=[['ov == %d' % ov, 's %% %d == %d' % ((8, seed % 8) if tier == 'quick' else (1, 0)), 'c in (0, 9, 41, 43, 63, 66)'] for ov in range(3, pk.N_OV)],
             bounds='every single-option deviation x statement templates x 6 child kinds'),
        dict(name='C08b.integer_total', fn='integer_total', timeout=t, shards=[[]], bounds='digit counts 1..6000', public_replay='public_integer_total'),
        dict(name='C08b.fstr_str_total', fn='fstr_str_total', timeout=t, shards=[['len(s) <= %d' % n]], bounds='|s| <= %d, PEP 701, all quotes' % n,
             public_replay='public_nested_str'),
        dict(name='C08b.fstr_str_total_alpha', fn='fstr_str_total_alpha', timeout=t, shards=[['n <= %d' % n]], bounds='alphabet incl. NUL and surrogates'),
        dict(name='C08b.fstr_bytes_total_alpha', fn='fstr_bytes_total_alpha', timeout=t, shards=[['n <= %d' % n]], bounds='byte alphabet'),
        dict(name='C08b.fstr_bytes_one_total', fn='fstr_bytes_one_total', timeout=t, shards=[[]], bounds='every byte value', public_replay=None),
        dict(name='C08b.ministring_total', fn='ministring', timeout=t, shards=[['len(s) <= %d' % n, 'q == %d' % q, 'not has_surrogate(s)'] for q in range(4)],
             bounds='|s| <= %d' % n),
        dict(name='C08c.rejects_with_syntax_error', fn='rejects_with_syntax_error', timeout=t, shards=[[]], bounds='6 symbolic options'),
    ]
    if tier == 'thorough':
        obs.append(dict(name='C08a.minify_total.py311', fn='minify_total', timeout=t, python='py311',
                        shards=[['s %% 16 == %d' % i, 'c in (0, 9, 41, 43, 63, 66, 70, 71, 85)', 'ov in (0, 2)'] for i in range(16)], bounds='same on Python 3.11.7'))
    return obs
