"""C08 - every compilable module is minified without error into a compilable module.  DESIGN.md section C08."""
from harness.printkern import *     # noqa: F401,F403
from harness.strkern import *       # noqa: F401,F403
from harness import printkern as pk, strkern

META = {
    'bounds': 'C08a: %d statement templates / %d expression slots x child kinds x option vectors (default, all off, all on, every single '
              'deviation from default and from all-off: %d vectors), admitted only if compile() accepts the source; C08b: '
              'TokenPrinter.integer for 13 representative digit counts up to 6000 (repr stubbed by its documented ValueError contract), f-string nested '
              'str/bytes printers total on 3.12 for |s| <= 2/3; C08c: parser rejection with 6 symbolic options' % (pk.N_STMT, pk.N_SLOT, pk.N_OV),
    'outside': 'sources the grammar does not generate; recursion limits on very deep trees; interpreters other than 3.12 (3.11 in thorough)',
    'stubs': ['repr / hex in token_printer (integer_total only)', 'eval in ministring / f_string -> R-lit (string kernels)',
              'ast.parse -> raises SyntaxError (C08c)'],
    'assumptions': ['compile() of CPython decides "compilable"'],
}


def selftest(tier):
    return strkern.selftest_rlit(2000 if tier == 'quick' else 50000)


def fstr_bytes_one_total(v: int) -> bool:
    """
    pre: 0 <= v <= 255
    post: _
    """
    from harness.strkern import _fstr_bytes
    return _fstr_bytes(bytes([v]), 15, True, True)


def one_byte_known(v):
    return v == 0 or v == 13 or v == 92 or v >= 128


def obligations(tier, seed):
    t = 240 if tier == 'quick' else 3000
    n = 2 if tier == 'quick' else 3
    def top(i, n=4, hi=13):
        return ['b%d == %s' % (hi - j, bool((i >> j) & 1)) for j in range(n)]

    def ovb(ov):
        return ['b%d == %s' % (14 + i, bool((ov >> i) & 1)) for i in range(6)]
    ovs = (0,) if tier == 'quick' else (0, 1, 2)
    dev = list(range(3, pk.N_OV))
    if tier == 'quick':
        # single-option deviations: a seeded third of them per quick run
        dev = [ov for ov in dev if (ov + seed) % 3 == 0]
    def ovq(ov):
        return ['b%d == %s' % (12 + i, bool((ov >> i) & 1)) for i in range(6)]
    if tier == 'quick':
        obs = [
            dict(name='C08a.minify_total', fn='minify_total_q', timeout=t, shards=[ovq(0) + ['b11 == %s' % a] for a in (True, False)] + [ovq(2) + ['b11 == %s' % a] for a in (True, False)],
                 bounds='all %d statement templates x 32 interesting child kinds x option vectors default / all-on' % pk.N_STMT),
            dict(name='C08a.minify_total_expr', fn='minify_total_expr_q', timeout=t, public_replay=None, shards=[ovq(0) + ['b11 == %s' % a] for a in (True, False)],
                 bounds='all %d expression slots x 32 interesting child kinds, default options' % pk.N_SLOT),
            dict(name='C08a.option_vectors', fn='minify_total_q', timeout=t, shards=[ovq(ov) + ['b11 == %s' % bool((ov + seed) & 1), 'b10 == %s' % bool((ov + seed) & 2)] for ov in dev],
                 bounds='single-option deviations %r x a seeded quarter of (statement templates x interesting child kinds)' % (dev,)),
        ]
    else:
        obs = [
            dict(name='C08a.minify_total', fn='minify_total', timeout=t, shards=[top(i) + ovb(ov) for i in range(16) for ov in ovs],
                 bounds='all %d statement templates x %d child kinds x option vectors %r' % (pk.N_STMT, pk.N_CHILD, ovs)),
            dict(name='C08a.minify_total_expr', fn='minify_total_expr', timeout=t, public_replay='public_minify_total_expr',
                 shards=[top(i) + ovb(0) for i in range(16)], bounds='all %d expression slots x %d child kinds, default options' % (pk.N_SLOT, pk.N_CHILD)),
            dict(name='C08a.option_vectors', fn='minify_total', timeout=t, shards=[top(i, 2) + ovb(ov) for ov in dev for i in range(4)],
                 bounds='single-option deviations %r x all statement templates x child kinds' % (dev,)),
        ]
    obs += [
        dict(name='C08b.integer_total', fn='integer_total', timeout=t, shards=[[]], bounds='13 representative digit counts around the hex/decimal cross-over and the 4300-digit limit x 10 previous-token classes', public_replay='public_integer_total'),
        dict(name='C08b.fstr_str_total', fn='fstr_str_total', timeout=t, shards=[['len(s) <= %d' % n, 'not has_surrogate(s)']], bounds='|s| <= %d over all non-surrogate Unicode, PEP 701, all quotes (surrogates: alphabet variant)' % n,
             public_replay='public_nested_str'),
        dict(name='C08b.fstr_str_total_alpha', fn='fstr_str_total_alpha', timeout=t, shards=[['n <= %d' % n]], bounds='alphabet incl. NUL and surrogates'),
        dict(name='C08b.fstr_bytes_total_alpha', fn='fstr_bytes_total_alpha', timeout=t, shards=[['n <= %d' % n]], bounds='byte alphabet'),
        dict(name='C08b.fstr_bytes_one_total', fn='fstr_bytes_one_total', timeout=t, shards=[[]], bounds='every byte value', public_replay=None),
        dict(name='C08b.ministring_total', fn='ministring', timeout=t, shards=[['len(s) <= %d' % n, 'q == %d' % q, 'not has_surrogate(s)'] for q in range(4)],
             bounds='|s| <= %d' % n),
        dict(name='C08c.rejects_with_syntax_error', fn='rejects_with_syntax_error', timeout=t, shards=[[]], bounds='6 symbolic options'),
    ]
    if tier == 'thorough':
        obs.append(dict(name='C08a.minify_total.py311', fn='minify_total', timeout=t, python='py311',
                        shards=[top(i) + ovb(ov) for i in range(16) for ov in (0, 2)], bounds='same on Python 3.11.7'))
    return obs
