"""Harness functions over the rename pipeline (shared by C03, C04, C06, C09, C10, C11)."""
import ast
import keyword
import re

from vf import rscope, skeletons, renamecheck
from vf.stubs import deterministic_node_hash

_IDENT = re.compile('[A-Za-z_][A-Za-z0-9_]*')
KEYWORDS = list(keyword.kwlist)


def valid_ident(s):
    """ASCII identifier shape (one regular-expression constraint for the solver; keywords are not excluded: a counterexample
    that needs a keyword as a name does not replay through the parser and is reported as a harness error, not a violation)."""
    return _IDENT.fullmatch(s) is not None


def _prepare(lib, k, A, B, C):
    tree = skeletons.instantiate(k, A, B, C, lib)
    deterministic_node_hash(tree)
    an0 = rscope.analyse(tree)
    return tree, an0


def rename_binding(k: int, A: str, B: str, C: str, rl: bool, rg: bool, hl: bool) -> bool:
    """
    pre: 0 <= k < len(skeletons.TEMPLATES)
    post: _
    """
    # C03: binding structure is preserved by rename + hoisting, for every spelling of the three hole identifiers
    tree, an0 = _prepare(skeletons.TEMPLATES, k, A, B, C)
    if an0.errors:
        return True     # not a compilable program: outside the property's precondition
    snap = renamecheck.Snapshot(tree)
    out = renamecheck.run_pipeline(tree, rl, rg, hl)
    rep = renamecheck.evaluate(an0, snap, out)
    return rep.problems == []


def rename_binding_twin(k: int, A: str, B: str, C: str) -> bool:
    """
    pre: 0 <= k < len(skeletons.TEMPLATES)
    post: _
    """
    # reachability: some identifier does get renamed (must be refuted)
    tree, an0 = _prepare(skeletons.TEMPLATES, k, A, B, C)
    if an0.errors:
        return True
    snap = renamecheck.Snapshot(tree)
    renamecheck.run_pipeline(tree, True, True, True)
    return renamecheck.spelling_changes(snap) == []


def explain(fn_name, args):
    lib = {'rename_binding': skeletons.TEMPLATES}.get(fn_name, skeletons.TEMPLATES)
    if 'k' in args and 'A' in args:
        return 'program: %r' % skeletons.source(args['k'], args['A'], args['B'], args['C'], lib)
    return ''


# ---------------------------------------------------------------------------------------------------------------
# C04: externally visible names
def _is_dunder(name):
    return len(name) >= 4 and name[:2] == '__' and name[-2:] == '__'


def _arg_may_be_renamed(o):
    """Documented rule: positional-only, *args/**kwargs, and the first parameter of an undecorated or @classmethod method."""
    fn = o.scope.node
    args = fn.args
    for a in args.posonlyargs:
        if a is o.node:
            return True
    if args.vararg is o.node or args.kwarg is o.node:
        return True
    if isinstance(fn, ast.Lambda):
        return False
    if o.scope.parent is not None and o.scope.parent.kind == 'class':
        allargs = args.posonlyargs + args.args
        if allargs and allargs[0] is o.node:
            if len(fn.decorator_list) == 0:
                return True
            if len(fn.decorator_list) == 1 and isinstance(fn.decorator_list[0], ast.Name) and fn.decorator_list[0].id == 'classmethod':
                return True
    return False


def interface_problems(an0, snap, out, rg):
    problems = []
    changed = renamecheck.spelling_changes(snap)
    if not changed:
        return problems
    occ_by_key = {}
    for o in an0.occ:
        occ_by_key[renamecheck.okey(o)] = o
    gb0 = an0.global_bound_names()
    for node, field, index, old, new in changed:
        if isinstance(node, ast.Attribute) and field == 'attr':
            problems.append('attribute name %r changed' % (old,))
        elif isinstance(node, ast.keyword):
            problems.append('keyword argument name %r changed' % (old,))
        elif isinstance(node, ast.alias) and field == 'name':
            problems.append('imported name %r changed' % (old,))
        elif isinstance(node, ast.ImportFrom):
            problems.append('imported module %r changed' % (old,))
        elif isinstance(node, ast.MatchClass):
            problems.append('class pattern keyword %r changed' % (old,))
        if problems:
            return problems
        key = (id(node), 'alias', None) if isinstance(node, ast.alias) else (id(node), field, index)
        o = occ_by_key.get(key)
        if o is None:
            continue
        if _is_dunder(old):
            problems.append('double-underscore name %r renamed' % (old,))
            return problems
        b0 = an0.binding(o)
        if b0[0] == 'L' and b0[1].kind == 'class':
            problems.append('class-body name %r renamed' % (old,))
            return problems
        if isinstance(o.node, ast.arg) and not _arg_may_be_renamed(o):
            problems.append('keyword-passable parameter %r renamed in the signature' % (old,))
            return problems
        if b0[0] == 'G':
            bound = False
            for g in gb0:
                if g == b0[1]:
                    bound = True
            if not rg:
                problems.append('module-level or free name %r renamed although rename_globals is off' % (old,))
                return problems
            if not bound and not rg:
                problems.append('unbound name %r renamed' % (old,))
                return problems
    return problems


def added_global_problems(rep, an1, rg):
    """With rename_globals off, every name the minifier adds at module level starts with an underscore."""
    if rg:
        return []
    for o in rep.new_occ:
        if o.kind == 'store':
            b = an1.binding(o)
            if b[0] == 'G' and not (len(o.name) > 0 and o.name[0] == '_'):
                return ['added module-level name %r does not start with an underscore' % (o.name,)]
    return []


def interface_names(k: int, A: str, B: str, C: str, rl: bool, rg: bool, hl: bool) -> bool:
    """
    pre: 0 <= k < len(skeletons.TEMPLATES)
    post: _
    """
    tree, an0 = _prepare(skeletons.TEMPLATES, k, A, B, C)
    if an0.errors:
        return True
    snap = renamecheck.Snapshot(tree)
    out = renamecheck.run_pipeline(tree, rl, rg, hl)
    if interface_problems(an0, snap, out, rg):
        return False
    rep = renamecheck.evaluate(an0, snap, out)
    if rep.problems:
        return True     # binding structure is C03's business
    return added_global_problems(rep, rep.an1, rg) == []


def interface_names_ann(k: int, A: str, B: str, C: str, rl: bool, rg: bool) -> bool:
    """
    pre: 0 <= k < len(skeletons.ANN_TEMPLATES)
    post: _
    """
    # the same interface rule when annotation removal (including class attributes) rewrites the statements first
    from python_minifier.transforms.remove_annotations_options import RemoveAnnotationsOptions
    tree, an0 = _prepare(skeletons.ANN_TEMPLATES, k, A, B, C)
    if an0.errors:
        return True
    snap = renamecheck.Snapshot(tree)
    opts = RemoveAnnotationsOptions(remove_variable_annotations=True, remove_return_annotations=True, remove_argument_annotations=True,
                                    remove_class_attribute_annotations=True)
    out = renamecheck.run_pipeline(tree, rl, rg, True, extra={'remove_annotations': opts})
    if interface_problems(an0, snap, out, rg):
        return False
    rep = renamecheck.evaluate(an0, snap, out, allow_removed=True)
    return rep.problems == []


# ---------------------------------------------------------------------------------------------------------------
# C09: dynamic name access freezes every name
def is_tainted(tree, an0):
    """Per the property: a builtin exec/eval/locals/globals/vars reference (not shadowed by any binding) or a star import."""
    for node in ast.walk(tree):
        if isinstance(node, ast.ImportFrom):
            for a in node.names:
                if a.name == '*':
                    return True
    gb0 = an0.global_bound_names()
    for o in an0.occ:
        if o.kind == 'load':
            is_trigger = False
            for t in skeletons.TRIGGERS:
                if o.name == t:
                    is_trigger = True
            if not is_trigger:
                continue
            b = an0.binding(o)
            if b[0] != 'G':
                continue
            bound = False
            for g in gb0:
                if g == o.name:
                    bound = True
            if not bound:
                return True
    return False


def taint_freezes(k: int, A: str, B: str, C: str, rl: bool, rg: bool, hl: bool, exc: bool) -> bool:
    """
    pre: 0 <= k < len(skeletons.TAINT_TEMPLATES)
    post: _
    """
    tree, an0 = _prepare(skeletons.TAINT_TEMPLATES, k, A, B, C)
    if an0.errors:
        return True
    if not is_tainted(tree, an0):
        return True     # the trigger name is shadowed by a hole: the property does not apply
    snap = renamecheck.Snapshot(tree)
    out = renamecheck.run_pipeline(tree, rl, rg, hl, extra={'remove_builtin_exception_brackets': exc})
    if renamecheck.spelling_changes(snap):
        return False
    # no statement added, no literal replaced by a name: the tree has exactly the nodes it had
    count = 0
    for node in ast.walk(out):
        count += 1
        if not snap.has_node(node):
            return False
    return count == len(snap.nodes)


def taint_twin(k: int, A: str, B: str, C: str) -> bool:
    """
    pre: 0 <= k < len(skeletons.TAINT_TEMPLATES)
    post: _
    """
    # reachability: some instantiation is tainted (must be refuted)
    tree, an0 = _prepare(skeletons.TAINT_TEMPLATES, k, A, B, C)
    if an0.errors:
        return True
    return not is_tainted(tree, an0)


# ---------------------------------------------------------------------------------------------------------------
# C10: preserved names
def all_entries(tree):
    """String entries of literal __all__ lists at module level (=, +=, annotated)."""
    out = []
    for st in tree.body:
        targets = []
        if isinstance(st, ast.Assign):
            targets = st.targets
        elif isinstance(st, (ast.AugAssign, ast.AnnAssign)):
            targets = [st.target]
        hit = False
        for t in targets:
            if isinstance(t, ast.Name) and t.id == '__all__':
                hit = True
        if hit and isinstance(getattr(st, 'value', None), ast.List):
            for e in st.value.elts:
                if isinstance(e, ast.Constant) and isinstance(e.value, str):
                    out.append(e.value)
    return out


def _preserve(lib, k, A, B, C, P, mode, rl, rg, hl):
    tree, an0 = _prepare(lib, k, A, B, C)
    if an0.errors:
        return True
    exported = all_entries(tree)
    snap = renamecheck.Snapshot(tree)
    pl = None
    pg = None
    if mode == 0:
        pl = [P]
    elif mode == 1:
        pg = [P]
    elif mode == 2:
        pl = P      # a bare string is one name
    elif mode == 3:
        pg = P
    out = renamecheck.run_pipeline(tree, rl, rg, hl, preserve_locals=pl, preserve_globals=pg)
    rep = renamecheck.evaluate(an0, snap, out)
    if rep.problems:
        return False    # preserving a name must not break the renaming of the others
    for i, (o, b0) in enumerate(rep.before):
        keep = False
        if mode in (0, 2) and b0[0] == 'L' and o.name == P:
            keep = True
        if b0[0] == 'G':
            if mode in (1, 3) and o.name == P:
                keep = True
            for e in exported:
                if o.name == e:
                    keep = True
        if keep and rep.after_orig[i].name != o.name:
            return False
    return True


def preserve_respected(k: int, A: str, B: str, C: str, P: str, mode: int, rl: bool, rg: bool, hl: bool) -> bool:
    """
    pre: 0 <= k < len(skeletons.TEMPLATES)
    pre: 0 <= mode <= 3
    post: _
    """
    return _preserve(skeletons.TEMPLATES, k, A, B, C, P, mode, rl, rg, hl)


def preserve_all(k: int, A: str, B: str, C: str, P: str, mode: int, rl: bool, rg: bool, hl: bool) -> bool:
    """
    pre: 0 <= k < len(skeletons.PRESERVE_TEMPLATES)
    pre: 0 <= mode <= 4
    post: _
    """
    return _preserve(skeletons.PRESERVE_TEMPLATES, k, A, B, C, P, mode, rl, rg, hl)


def preserve_twin(k: int, A: str, B: str, C: str) -> bool:
    """
    pre: 0 <= k < len(skeletons.PRESERVE_TEMPLATES)
    post: _
    """
    # reachability: with rename_globals some module-level name does get renamed (must be refuted)
    tree, an0 = _prepare(skeletons.PRESERVE_TEMPLATES, k, A, B, C)
    if an0.errors:
        return True
    snap = renamecheck.Snapshot(tree)
    renamecheck.run_pipeline(tree, True, True, False)
    return renamecheck.spelling_changes(snap) == []


# ---------------------------------------------------------------------------------------------------------------
# public replays: real parser, real builtin namespace, real minify() body on the real parse tree
def _normalise(names, reserved):
    """Maps hole strings that are not valid identifiers to fresh valid identifiers of the same length, keeping the
    equality pattern (DESIGN.md 3.4).  Returns None if that is impossible."""
    out = {}
    counter = [0]
    for n in names:
        if n in out:
            continue
        if n.isidentifier() and not keyword.iskeyword(n) and n.isascii():
            out[n] = n
            continue
        if len(n) == 0:
            return None
        while True:
            counter[0] += 1
            cand = ('q%0' + str(max(len(n) - 1, 0)) + 'd') % counter[0] if len(n) > 1 else 'qrstuvwxyz'[counter[0] % 10]
            cand = cand[:len(n)]
            if len(cand) == len(n) and cand not in reserved and cand not in out.values() and cand not in names:
                out[n] = cand
                break
            if counter[0] > 200:
                return None
    return out


def _public(lib, checker, k, A, B, C, **kw):
    import python_minifier
    reserved = set(re.findall('[A-Za-z_][A-Za-z0-9_]*', lib[k][1])) | set(dir(__import__('builtins')))
    mapping = _normalise([A, B, C] + ([kw['P']] if 'P' in kw else []), reserved)
    if mapping is None:
        return {'violated': False, 'detail': 'counterexample names cannot be mapped to identifiers'}
    A2, B2, C2 = mapping[A], mapping[B], mapping[C]
    if 'P' in kw:
        kw = dict(kw, P=mapping[kw['P']])
    text = skeletons.source(k, A2, B2, C2, lib)
    try:
        compile(text, 'replay', 'exec')
    except SyntaxError as e:
        return {'violated': False, 'detail': 'program %r does not compile (%s): outside the precondition' % (text, e)}
    detail = checker(text, k, A2, B2, C2, **kw)
    return {'violated': bool(detail), 'detail': 'program %r: %s' % (text, detail or 'property holds')}


def _real_run(text, rl, rg, hl, **extra):
    tree = ast.parse(text)
    deterministic_node_hash(tree)
    an0 = rscope.analyse(tree)
    snap = renamecheck.Snapshot(tree)
    out = renamecheck.run_pipeline(tree, rl, rg, hl, stub_builtins=False, **extra)
    return tree, an0, snap, out


def _minified_compiles(text, **opts):
    import python_minifier
    from vf.stubs import ALL_OFF
    o = dict(ALL_OFF)
    o.update(opts)
    out = python_minifier.minify(text, **o)
    try:
        compile(out, 'minified', 'exec')
    except SyntaxError as e:
        return 'minify() output %r does not compile: %s' % (out, e)
    return ''


def public_rename_binding(k, A, B, C, rl, rg, hl):
    def chk(text, k, A, B, C):
        tree, an0, snap, out = _real_run(text, rl, rg, hl)
        rep = renamecheck.evaluate(an0, snap, out)
        if rep.problems:
            import python_minifier
            from vf.stubs import ALL_OFF
            return '%s; minify() gives %r' % (rep.problems, python_minifier.minify(text, **dict(ALL_OFF, rename_locals=rl, rename_globals=rg, hoist_literals=hl)))
        return _minified_compiles(text, rename_locals=rl, rename_globals=rg, hoist_literals=hl)
    return _public(skeletons.TEMPLATES, chk, k, A, B, C)


def public_interface_names(k, A, B, C, rl, rg, hl):
    def chk(text, k, A, B, C):
        tree, an0, snap, out = _real_run(text, rl, rg, hl)
        p = interface_problems(an0, snap, out, rg)
        if p:
            return str(p)
        rep = renamecheck.evaluate(an0, snap, out)
        if rep.problems:
            return ''
        return str(added_global_problems(rep, rep.an1, rg) or '')
    return _public(skeletons.TEMPLATES, chk, k, A, B, C)


def public_taint_freezes(k, A, B, C, rl, rg, hl, exc=True):
    def chk(text, k, A, B, C):
        import python_minifier
        from vf.stubs import ALL_OFF
        tree = ast.parse(text)
        an0 = rscope.analyse(tree)
        if not is_tainted(tree, an0):
            return ''
        out = python_minifier.minify(text, **dict(ALL_OFF, rename_locals=rl, rename_globals=rg, hoist_literals=hl,
                                                    remove_builtin_exception_brackets=exc))
        if ast.dump(ast.parse(out)) != ast.dump(tree):
            return 'module uses dynamic name access but minify() changed it to %r' % (out,)
        return ''
    return _public(skeletons.TAINT_TEMPLATES, chk, k, A, B, C)


def _public_preserve(lib):
    def run(k, A, B, C, P, mode, rl, rg, hl):
        def chk(text, k, A, B, C, P):
            import python_minifier
            from vf.stubs import ALL_OFF
            tree = ast.parse(text)
            deterministic_node_hash(tree)
            an0 = rscope.analyse(tree)
            exported = all_entries(tree)
            snap = renamecheck.Snapshot(tree)
            pl = [P] if mode == 0 else (P if mode == 2 else None)
            pg = [P] if mode == 1 else (P if mode == 3 else None)
            out = renamecheck.run_pipeline(tree, rl, rg, hl, preserve_locals=pl, preserve_globals=pg, stub_builtins=False)
            rep = renamecheck.evaluate(an0, snap, out)
            if rep.problems:
                return str(rep.problems)
            for i, (o, b0) in enumerate(rep.before):
                keep = (mode in (0, 2) and b0[0] == 'L' and o.name == P) or (b0[0] == 'G' and ((mode in (1, 3) and o.name == P) or o.name in exported))
                if keep and rep.after_orig[i].name != o.name:
                    return 'name %r should be preserved but became %r' % (o.name, rep.after_orig[i].name)
            return ''
        return _public(lib, chk, k, A, B, C, P=P)
    return run


public_preserve_respected = _public_preserve(skeletons.TEMPLATES)
public_preserve_all = _public_preserve(skeletons.PRESERVE_TEMPLATES)


# ---------------------------------------------------------------------------------------------------------------
# shard planning
OPTION_COMBOS = [(True, False, True), (True, True, True), (True, True, False), (False, True, True)]
# the thorough tier crosses every skeleton and name length with two of these (default options, everything on);
# the other two rotate in through the quick tier's seed
THOROUGH_COMBOS = [(True, False, True), (True, True, True)]


def plan(lib, tier, seed, quick_n, lengths_quick=(1, 3), lengths_thorough=(1, 3), combos_quick=None, extra=None, names='ABC',
         combos_thorough=None, quick_all_lengths=False, pin_c_quick=False, always=()):
    """[(extra_pre list)] - quick: quick_n skeletons (seeded rotation; all if quick_n >= len(lib)), one name length and one
    option combination each (both rotate with the seed; length 1 is where generated names A, B, ... can collide with the
    program's own); thorough: the whole library x every length x every option combination."""
    import random
    n = len(lib)
    ks = list(range(n))
    core = []
    if tier == 'quick':
        rnd = random.Random(seed)
        rnd.shuffle(ks)
        core = [k for k in range(n) if lib[k][0] in always]     # skeletons every quick run keeps, whatever the seed
        ks = sorted(core + [k for k in ks if k not in core][:max(0, quick_n - len(core))])
        combos = combos_quick or [OPTION_COMBOS[0], OPTION_COMBOS[1]]
    else:
        combos = combos_thorough or THOROUGH_COMBOS
    shards = []
    for i, k in enumerate(ks):
        if tier == 'quick' and quick_all_lengths:
            todo = [(L, combos[(k // 2 + seed + j) % len(combos)]) for j, L in enumerate(lengths_quick)]
        elif tier == 'quick' and k in core:
            todo = [(lengths_quick[(k + seed) % len(lengths_quick)], combos[0])]     # the default options (locals renamed, globals not)
        elif tier == 'quick':
            todo = [(lengths_quick[(k + seed) % len(lengths_quick)], combos[(k // 2 + seed) % len(combos)])]
        else:
            todo = [(L, c) for L in lengths_thorough for c in combos]
        for L, (rl, rg, hl) in todo:
            pre = ['k == %d' % k, ' and '.join('len(%s) == %d' % (v, L) for v in names),
                   ' and '.join('"." not in %s and "*" not in %s' % (v, v) for v in names),
                   'rl == %s' % rl, 'rg == %s' % rg, 'hl == %s' % hl]
            if extra:
                pre += extra
            if tier == 'quick' and pin_c_quick and L > 1 and 'C' in names:
                pre.append('C == %r' % ('c' * L))     # quick tier: the third hole is pinned for the longer names
            shards.append(pre)
    return shards


def renamekern_selftest(tier):
    """R-scope against the interpreter on concrete instantiations of every skeleton (compile() agreement), and the
    oracle on the unchanged pipeline with the real builtin namespace.  Returns the number of cases."""
    n = 0
    triples = [('aaa', 'bbb', 'ccc'), ('aaa', 'aaa', 'ccc'), ('aaa', 'bbb', 'aaa'), ('A', 'B', 'C'), ('B', 'A', 'A'), ('len', 'bbb', 'eval')]
    if tier == 'thorough':
        triples += [('aaa', 'bbb', 'bbb'), ('__x__', 'bbb', 'ccc'), ('self', 'cls', 'ccc'), ('_A', '_B', 'A'), ('x', 'y', 'long_argument_name')]
    for lib in (skeletons.TEMPLATES, skeletons.TAINT_TEMPLATES, skeletons.PRESERVE_TEMPLATES):
        for k in range(len(lib)):
            for (A, B, C) in triples:
                text = skeletons.source(k, A, B, C, lib)
                try:
                    compile(text, 'selftest', 'exec')
                    ok = True
                except SyntaxError:
                    ok = False
                an = rscope.analyse(skeletons.instantiate(k, A, B, C, lib))
                if ok != (an.errors == []):
                    raise AssertionError('R-scope and compile() disagree on %r: compile ok=%s, R-scope errors=%s' % (text, ok, an.errors))
                n += 1
    return n


# ---------------------------------------------------------------------------------------------------------------
# C06: hoisted literals
def _slots(tree):
    """{(id(parent), field, index): child} and {id(child): parent} for every AST child position."""
    slots = {}
    parent_of = {}
    for node in ast.walk(tree):
        for field, value in ast.iter_fields(node):
            if isinstance(value, ast.AST):
                slots[(id(node), field, None)] = value
                parent_of[id(value)] = node
            elif isinstance(value, list):
                for i, v in enumerate(value):
                    if isinstance(v, ast.AST):
                        slots[(id(node), field, i)] = v
                        parent_of[id(v)] = node
    return slots, parent_of


def _is_doc(st):
    return isinstance(st, ast.Expr) and isinstance(st.value, ast.Constant) and isinstance(st.value.value, str)


def _is_future(st):
    return isinstance(st, ast.ImportFrom) and st.module == '__future__'


def hoist_problems(tree_before_slots, first_stmts, an0, snap, out, rep):
    problems = []
    an1 = rep.an1
    slots1, parent1 = _slots(out)
    slot_of = {}
    for key, child in slots1.items():
        slot_of[id(child)] = key
    const_links = [l for l in rep.links if l[1][0] == 'CONST']
    # 1. definitions: where and what
    for (tb, sb, st, parent) in const_links:
        if not isinstance(parent, (ast.Module, ast.FunctionDef, ast.AsyncFunctionDef)):
            problems.append('literal alias defined in a %s body' % type(parent).__name__)
            return problems
        seen_self = False
        for s2 in parent.body:
            if s2 is st:
                seen_self = True
                break
            inserted = not snap.has_node(s2)
            if not (_is_doc(s2) or _is_future(s2) or inserted):
                problems.append('literal alias is not at the start of its body (after %s)' % type(s2).__name__)
                return problems
        if not seen_self:
            problems.append('literal alias definition not found in the body list')
            return problems
    # 2. uses
    for o in rep.new_occ:
        if o.kind != 'load':
            continue
        is_alias_value = False
        for (tb, sb, st, parent) in rep.links:
            if st.value is o.node:
                is_alias_value = True
        if is_alias_value:
            continue
        key = slot_of.get(id(o.node))
        orig = tree_before_slots.get(key) if key is not None else None
        if isinstance(orig, ast.BinOp):
            # constant folding ran first: the literal that was hoisted is the value of this closed arithmetic expression
            try:
                from vf import rlit
                orig = ast.Constant(value=rlit.eval_closed_arith(ast.unparse(ast.fix_missing_locations(ast.Expression(body=orig)))))
            except Exception:  # noqa
                orig = None
        if not isinstance(orig, ast.Constant):
            problems.append('a name was introduced where no literal stood')
            return problems
        b = an1.binding(o)
        link = None
        for l in const_links:
            if rscope.same_binding(l[0], b):
                link = l
        if link is None:
            problems.append('introduced name %r has no literal definition in scope' % (o.name,))
            return problems
        dv = link[1][1].value
        if not (type(dv) is type(orig.value) and dv == orig.value):
            problems.append('literal %r (%s) replaced by an alias of %r (%s)' % (orig.value, type(orig.value).__name__, dv, type(dv).__name__))
            return problems
        # forbidden positions
        p = parent1.get(id(o.node))
        child = o.node
        while p is not None:
            if isinstance(p, ast.pattern) or isinstance(p, ast.match_case) and p.pattern is child:
                problems.append('literal in a match pattern replaced by a name')
                return problems
            if isinstance(p, ast.Expr) and p.value is o.node:
                problems.append('literal statement / docstring replaced by a name')
                return problems
            if isinstance(p, ast.JoinedStr) and child is o.node:
                problems.append('f-string literal text replaced by a name')
                return problems
            if isinstance(p, ast.Assign) and isinstance(parent1.get(id(p)), ast.ClassDef):
                for t in p.targets:
                    if isinstance(t, ast.Name) and t.id == '__slots__':
                        problems.append('__slots__ literal replaced by a name')
                        return problems
            child = p
            p = parent1.get(id(p))
    # 3. docstrings stay first, __future__ imports stay ahead of all other code
    for node, first in first_stmts:
        body = getattr(node, 'body', None)
        if isinstance(body, list) and body and _is_doc(first):
            if body[0] is not first:
                problems.append('docstring is no longer the first statement')
                return problems
    seen_code = False
    for s2 in out.body:
        if _is_future(s2):
            if seen_code:
                problems.append('code precedes a from __future__ import')
                return problems
        elif not _is_doc(s2):
            seen_code = True
    return problems


def hoist_ok(k: int, A: str, B: str, C: str, rl: bool, rg: bool) -> bool:
    """
    pre: 0 <= k < len(skeletons.HOIST_TEMPLATES)
    post: _
    """
    tree, an0 = _prepare(skeletons.HOIST_TEMPLATES, k, A, B, C)
    if an0.errors:
        return True
    snap = renamecheck.Snapshot(tree)
    slots0, _p0 = _slots(tree)
    first_stmts = [(n, n.body[0]) for n in ast.walk(tree) if isinstance(n, (ast.Module, ast.FunctionDef, ast.AsyncFunctionDef, ast.ClassDef)) and n.body]
    fold = skeletons.HOIST_TEMPLATES[k][0].startswith('folded_')
    import copy
    slots0 = dict((key, copy.deepcopy(v) if isinstance(v, ast.BinOp) else v) for key, v in slots0.items()) if fold else slots0
    out = renamecheck.run_pipeline(tree, rl, rg, True, extra={'constant_folding': True} if fold else None)
    rep = renamecheck.evaluate(an0, snap, out)
    if rep.problems:
        return False
    return hoist_problems(slots0, first_stmts, an0, snap, out, rep) == []


def hoist_twin(k: int, A: str, B: str, C: str) -> bool:
    """
    pre: 0 <= k < len(skeletons.HOIST_TEMPLATES)
    post: _
    """
    # reachability: a literal does get hoisted (must be refuted)
    tree, an0 = _prepare(skeletons.HOIST_TEMPLATES, k, A, B, C)
    if an0.errors:
        return True
    snap = renamecheck.Snapshot(tree)
    out = renamecheck.run_pipeline(tree, True, False, True)
    for node in ast.walk(out):
        if isinstance(node, ast.stmt) and not snap.has_node(node):
            return False
    return True


def public_hoist_ok(k, A, B, C, rl, rg):
    def chk(text, k, A, B, C):
        tree, an0, snap, out = None, None, None, None
        tree = ast.parse(text)
        deterministic_node_hash(tree)
        an0 = rscope.analyse(tree)
        snap = renamecheck.Snapshot(tree)
        slots0, _p = _slots(tree)
        first_stmts = [(n, n.body[0]) for n in ast.walk(tree) if isinstance(n, (ast.Module, ast.FunctionDef, ast.AsyncFunctionDef, ast.ClassDef)) and n.body]
        fold = skeletons.HOIST_TEMPLATES[k][0].startswith('folded_')
        if fold:
            import copy
            slots0 = dict((key, copy.deepcopy(v) if isinstance(v, ast.BinOp) else v) for key, v in slots0.items())
        out = renamecheck.run_pipeline(tree, rl, rg, True, stub_builtins=False, extra={'constant_folding': True} if fold else None)
        rep = renamecheck.evaluate(an0, snap, out)
        if rep.problems:
            return str(rep.problems)
        p = hoist_problems(slots0, first_stmts, an0, snap, out, rep)
        if p:
            import python_minifier
            from vf.stubs import ALL_OFF
            return '%s; minify() gives %r' % (p, python_minifier.minify(text, **dict(ALL_OFF, rename_locals=rl, rename_globals=rg, hoist_literals=True, constant_folding=fold)))
        return ''
    return _public(skeletons.HOIST_TEMPLATES, chk, k, A, B, C)


def insert_kernel(n: int, k0: int, k1: int, k2: int, k3: int, fut: str) -> bool:
    """
    pre: 0 <= n <= 4
    pre: 0 <= k0 <= 4 and 0 <= k1 <= 4 and 0 <= k2 <= 4 and 0 <= k3 <= 4
    pre: len(fut) <= 10
    post: _
    """
    # rename/util.py:insert on every statement-kind list of length <= 4; the module name of the ImportFrom is symbolic
    from python_minifier.rename.util import insert
    kinds = [k0, k1, k2, k3][:n]

    def mk(kd):
        if kd == 0:
            return ast.Expr(value=ast.Constant(value='doc'))
        if kd == 1:
            return ast.ImportFrom(module=fut, names=[ast.alias(name='x', asname=None)], level=0)
        if kd == 2:
            return ast.Expr(value=ast.Constant(value=1))
        if kd == 3:
            return ast.Assign(targets=[ast.Name(id='a', ctx=ast.Store())], value=ast.Constant(value=2))
        return ast.Import(names=[ast.alias(name='m', asname=None)])

    suite = [mk(kd) for kd in kinds]
    new = ast.Pass()
    res = list(insert(suite, new))
    if len(res) != n + 1:
        return False
    # expected position: after the longest prefix of docstring expressions and __future__ imports
    pos = 0
    while pos < n and (kinds[pos] == 0 or (kinds[pos] == 1 and fut == '__future__')):
        pos += 1
    for i in range(n + 1):
        exp = new if i == pos else suite[i if i < pos else i - 1]
        if res[i] is not exp:
            return False
    return True


# ---------------------------------------------------------------------------------------------------------------
# C11: arguments unchanged, no carry-over between calls, no dependence on set iteration order
def trees_equal(a, b):
    if type(a) is not type(b):
        return False
    if isinstance(a, ast.AST):
        for f in a._fields:
            if not trees_equal(getattr(a, f, None), getattr(b, f, None)):
                return False
        return True
    if isinstance(a, list):
        if len(a) != len(b):
            return False
        for x, y in zip(a, b):
            if not trees_equal(x, y):
                return False
        return True
    return a == b


def history(k1: int, k2: int, A: str, P: str, rg: bool) -> bool:
    """
    pre: 0 <= k1 < len(skeletons.PRESERVE_TEMPLATES)
    pre: 0 <= k2 < len(skeletons.TEMPLATES)
    post: _
    """
    # two calls sharing the caller's list objects; hole A and the preserved name P are symbolic, the other holes concrete
    B = 'bbb'
    C = 'ccc'
    import inspect
    import python_minifier
    lg = [P]
    ll = [P]
    default_opts = inspect.signature(python_minifier.minify).parameters['remove_annotations'].default
    before_opts = (default_opts.remove_variable_annotations, default_opts.remove_return_annotations,
                   default_opts.remove_argument_annotations, default_opts.remove_class_attribute_annotations)
    t1, an1 = _prepare(skeletons.PRESERVE_TEMPLATES, k1, A, B, C)
    t2, an2 = _prepare(skeletons.TEMPLATES, k2, A, B, C)
    t3, an3 = _prepare(skeletons.TEMPLATES, k2, A, B, C)
    if an1.errors or an2.errors:
        return True
    renamecheck.run_pipeline(t1, True, rg, True, preserve_locals=ll, preserve_globals=lg, extra={'remove_annotations': default_opts})
    if not (len(lg) == 1 and lg[0] == P and len(ll) == 1 and ll[0] == P):
        return False    # the caller's lists were changed by the call
    out2 = renamecheck.run_pipeline(t2, True, rg, True, preserve_locals=ll, preserve_globals=lg, extra={'remove_annotations': default_opts})
    if not (len(lg) == 1 and lg[0] == P and len(ll) == 1 and ll[0] == P):
        return False
    after_opts = (default_opts.remove_variable_annotations, default_opts.remove_return_annotations,
                  default_opts.remove_argument_annotations, default_opts.remove_class_attribute_annotations)
    if before_opts != after_opts:
        return False
    out3 = renamecheck.run_pipeline(t3, True, rg, True, preserve_locals=[P], preserve_globals=[P], extra={'remove_annotations': default_opts})
    return trees_equal(out2, out3)


class NondetSet(object):
    """A set whose iteration order is chosen by the harness (rotation + optional reversal of insertion order)."""
    tape = [0, False]

    def __init__(self, items=()):
        self._items = []
        for x in items:
            self.add(x)

    def add(self, x):
        for y in self._items:
            if y == x:
                return
        self._items.append(x)

    def update(self, xs):
        for x in xs:
            self.add(x)

    def __contains__(self, x):
        for y in self._items:
            if y == x:
                return True
        return False

    def __len__(self):
        return len(self._items)

    def __iter__(self):
        items = list(self._items)
        n = len(items)
        if n > 1:
            r = NondetSet.tape[0] % n
            items = items[r:] + items[:r]
            if NondetSet.tape[1]:
                items.reverse()
        return iter(items)


def set_order(k: int, A: str, B: str, C: str, rot: int, rev: bool, rg: bool) -> bool:
    """
    pre: 0 <= k < len(skeletons.TEMPLATES)
    pre: 0 <= rot <= 3
    post: _
    """
    # hash-seed dimension as a symbolic variable: every string set of the renamer iterates in a harness-chosen order
    from vf.stubs import mod, patched
    import contextlib
    t1, an1 = _prepare(skeletons.TEMPLATES, k, A, B, C)
    t2, an2 = _prepare(skeletons.TEMPLATES, k, A, B, C)
    if an1.errors:
        return True
    with contextlib.ExitStack() as st:
        for m in ('python_minifier.rename.mapper', 'python_minifier.rename.renamer', 'python_minifier.rename.bind_names'):
            st.enter_context(patched(mod(m), 'set', NondetSet))
        # reference: insertion order; then the harness-chosen order (both deterministic, so a counterexample replays)
        NondetSet.tape = [0, False]
        ref = renamecheck.run_pipeline(t1, True, rg, True)
        NondetSet.tape = [rot, rev]
        out = renamecheck.run_pipeline(t2, True, rg, True)
    NondetSet.tape = [0, False]
    return trees_equal(ref, out)
