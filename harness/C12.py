"""C12 - minifying never runs code taken from the input.  DESIGN.md section C12.

Every text that reaches eval() in python_minifier is shown to be a closed literal expression, for all inputs in bound:
the eval sites are rebound to the reference recogniser/decoder R-lit (vf/rlit.py), which raises NotClosedLiteral for any
text containing a token that is not a string/bytes literal (resp. a number/boolean/operator for constant folding).
A site inventory (AST scan of /repo/src) is recomputed every run; a site no obligation covers makes the run inconclusive.
"""
import ast
import os

from harness.strkern import *   # noqa: F401,F403  (harness functions are looked up in this module)
from harness import strkern
from vf import rlit
from vf.stubs import untraced, bits_index, decode_index, mod, patched

META = {
    'bounds': 'strings: |s| <= 2 (quick) / 3 (thorough) over all non-surrogate Unicode, plus |s| <= 2/3 over a 14-character '
              'alphabet containing lone surrogates, NUL, quotes, backslash, newlines, braces, BMP and astral characters; '
              'bytes: every single byte value, plus |b| <= 2/3 over a 12-value alphabet; quote styles: all 4 / all 15 '
              'non-empty subsets of allowed quotes; PEP 701 on and off; constant folding: all 13 binary operators x 18 x 18 '
              'operand kinds (incl. unary operators over calls / names)',
    'outside': 'code reached inside ast.parse/compile (CPython, C); longer strings; the dead class ministring.MiniBytes '
               '(referenced nowhere - checked every run - and therefore never executed by minify())',
    'stubs': ['eval in python_minifier.ministring / python_minifier.f_string -> vf.rlit.eval_literal_text',
              'safe_eval in python_minifier.transforms.constant_folding -> vf.rlit.eval_closed_arith'],
    'assumptions': ['R-lit agrees with the CPython compiler on literal texts (validated every run against the real parser)'],
}


# --- constant folding: what reaches safe_eval ---------------------------------------------------------------------
def _name():
    return ast.Name(id='x', ctx=ast.Load())


OPERAND_KINDS = [
    lambda: ast.Constant(value=7), lambda: ast.Constant(value=2.5), lambda: ast.Constant(value=3j),
    lambda: ast.Constant(value=True), lambda: ast.Constant(value=None), lambda: ast.Constant(value='s'),
    lambda: ast.Constant(value=b'b'), lambda: ast.Constant(value=Ellipsis), _name,
    lambda: ast.Call(func=_name(), args=[], keywords=[]), lambda: ast.Attribute(value=_name(), attr='a', ctx=ast.Load()),
    lambda: ast.JoinedStr(values=[ast.Constant(value='t')]), lambda: ast.Tuple(elts=[ast.Constant(value=1)], ctx=ast.Load()),
    lambda: ast.BinOp(left=ast.Constant(value=1), op=ast.Add(), right=ast.Constant(value=2)),
    lambda: ast.UnaryOp(op=ast.USub(), operand=ast.Call(func=_name(), args=[], keywords=[])),
    lambda: ast.UnaryOp(op=ast.USub(), operand=ast.Constant(value=4)),
    lambda: ast.UnaryOp(op=ast.Not(), operand=_name()),
    lambda: ast.UnaryOp(op=ast.Invert(), operand=ast.Attribute(value=_name(), attr='a', ctx=ast.Load())),
]
N_KINDS = len(OPERAND_KINDS)
BINOPS = [lambda: ast.Add(), lambda: ast.Sub(), lambda: ast.Mult(), lambda: ast.Div(), lambda: ast.FloorDiv(), lambda: ast.Mod(),
          lambda: ast.Pow(), lambda: ast.LShift(), lambda: ast.RShift(), lambda: ast.BitOr(), lambda: ast.BitXor(),
          lambda: ast.BitAnd(), lambda: ast.MatMult()]


def _is_numlit(n):
    return isinstance(n, ast.Constant) and (n.value is None or isinstance(n.value, (bool, int, float, complex)))


def fold_reach(kl: int, kr: int, op: int) -> bool:
    """
    pre: 0 <= kl < N_KINDS and 0 <= kr < N_KINDS and 0 <= op < 13
    post: _
    """
    return untraced(_fold_reach_impl, kl, kr, op)


def _fold_reach_impl(kl, kr, op):
    # safe_eval is reached only with the text of literal arithmetic, whatever the operand kinds are
    from python_minifier.ast_annotation import add_parent
    from python_minifier.rename import add_namespace
    cf = mod('python_minifier.transforms.constant_folding')
    node = ast.BinOp(left=OPERAND_KINDS[kl](), op=BINOPS[op](), right=OPERAND_KINDS[kr]())
    module = ast.Module(body=[ast.Expr(value=node)], type_ignores=[])
    ast.fix_missing_locations(module)
    add_parent(module)
    add_namespace(module)
    texts = []

    def recording_safe_eval(expression):
        texts.append(expression)
        return rlit.eval_closed_arith(expression)    # NotClosedLiteral propagates: not an Exception the code expects? it is one

    violated = []

    def guarded(expression):
        try:
            return recording_safe_eval(expression)
        except rlit.NotClosedLiteral as e:
            violated.append(str(e))
            raise

    with patched(cf, 'safe_eval', guarded):
        cf.FoldConstants()(module)
    if violated:
        return False
    # every evaluated text came from number/boolean/None operands only
    for t in texts:
        try:
            rlit.eval_closed_arith(t)
        except rlit.NotClosedLiteral:
            return False
        except Exception:  # noqa  (ZeroDivisionError, TypeError, ...: evaluation may fail, it still is closed arithmetic)
            pass
    return True


def fold_reach_twin(kl: int, kr: int, op: int) -> bool:
    """
    pre: 0 <= kl < N_KINDS and 0 <= kr < N_KINDS and 0 <= op < 13
    post: _
    """
    return untraced(_fold_reach_twin_impl, kl, kr, op)


def _fold_reach_twin_impl(kl, kr, op):
    # reachability: safe_eval is reached for some operand kinds (must be refuted)
    from python_minifier.ast_annotation import add_parent
    from python_minifier.rename import add_namespace
    cf = mod('python_minifier.transforms.constant_folding')
    node = ast.BinOp(left=OPERAND_KINDS[kl](), op=BINOPS[op](), right=OPERAND_KINDS[kr]())
    module = ast.Module(body=[ast.Expr(value=node)], type_ignores=[])
    ast.fix_missing_locations(module)
    add_parent(module)
    add_namespace(module)
    texts = []
    with patched(cf, 'safe_eval', lambda e: texts.append(e) or rlit.eval_closed_arith(e)):
        cf.FoldConstants()(module)
    return texts == []


def fold_reach_b(b0: bool, b1: bool, b2: bool, b3: bool, b4: bool, b5: bool, b6: bool, b7: bool, b8: bool, b9: bool, b10: bool, b11: bool) -> bool:
    """
    post: _
    """
    return untraced(_fold_reach_b_impl, bits_index(b0, b1, b2, b3, b4, b5, b6, b7, b8, b9, b10, b11))


def _fold_reach_b_impl(idx):
    d = decode_index(idx, [N_KINDS, N_KINDS, 13])
    if d is None:
        return True
    return _fold_reach_impl(d[0], d[1], d[2])


# --- site inventory -------------------------------------------------------------------------------------------------
DANGEROUS = {'eval', 'exec', 'compile', '__import__', 'open', 'execfile', 'input'}
DANGEROUS_ATTR = {('os', 'system'), ('os', 'popen'), ('subprocess', None), ('socket', None), ('pickle', None), ('importlib', None),
                  ('marshal', None), ('ctypes', None), ('runpy', None)}
# site -> the obligation(s) that cover it, or the reason it is not input-driven
COVERED = {
    ('python_minifier/ministring.py', 'MiniString.__str__', 'eval'): 'C12.ministring*',
    ('python_minifier/ministring.py', 'MiniBytes.__str__', 'eval'): 'dead code: MiniBytes is referenced nowhere (checked below)',
    ('python_minifier/f_string.py', 'Str.__str__', 'eval'): 'C12.fstr_str*',
    ('python_minifier/f_string.py', 'Bytes.__str__', 'eval'): 'C12.fstr_bytes*',
    ('python_minifier/transforms/constant_folding.py', 'safe_eval', 'eval'): 'C12.fold_reach',
    ('python_minifier/__main__.py', '<module>', 'import importlib'): 'importlib.metadata.version() of the installed package at import time; independent of the input',
    ('python_minifier/__main__.py', 'main', 'open'): 'opens only paths given on the command line / found by os.walk, never names taken from module content (C15)',
}


def site_inventory():
    src = os.path.join(os.environ.get('VERIF_REPO', '/repo'), 'src')
    sites = []
    refs_minibytes = 0
    for root, _d, files in os.walk(os.path.join(src, 'python_minifier')):
        for f in files:
            if not f.endswith('.py'):
                continue
            path = os.path.join(root, f)
            rel = os.path.relpath(path, src)
            tree = ast.parse(open(path).read())
            imported = set()
            for node in ast.walk(tree):
                if isinstance(node, ast.Import):
                    imported.update(a.name.split('.')[0] for a in node.names)
                elif isinstance(node, ast.ImportFrom) and node.module:
                    imported.add(node.module.split('.')[0])
                if isinstance(node, ast.Name) and node.id == 'MiniBytes':
                    refs_minibytes += 1
                if isinstance(node, ast.ImportFrom):
                    refs_minibytes += sum(1 for a in node.names if a.name == 'MiniBytes')
            for m in imported & {x[0] for x in DANGEROUS_ATTR if x[1] is None}:
                sites.append((rel, '<module>', 'import ' + m))

            def visit(node, qual):
                for child in ast.iter_child_nodes(node):
                    q = qual
                    if isinstance(child, (ast.FunctionDef, ast.AsyncFunctionDef, ast.ClassDef)):
                        q = (qual + '.' if qual else '') + child.name
                    if isinstance(child, ast.Call):
                        fn = child.func
                        if isinstance(fn, ast.Name) and fn.id in DANGEROUS:
                            sites.append((rel, qual or '<module>', fn.id))
                        if isinstance(fn, ast.Attribute) and isinstance(fn.value, ast.Name) and (fn.value.id, fn.attr) in DANGEROUS_ATTR:
                            sites.append((rel, qual or '<module>', fn.value.id + '.' + fn.attr))
                    visit(child, q)

            visit(tree, '')
    return sites, refs_minibytes


def direct_obligations(tier, seed):
    import time
    t0 = time.time()
    sites, refs = site_inventory()
    problems = []
    for s in sites:
        if s not in COVERED:
            problems.append('uncovered evaluation / I/O site %s:%s calls %s' % s)
    if refs:
        problems.append('ministring.MiniBytes is now referenced %d time(s): its eval site is no longer dead code and needs an obligation' % refs)
    return [{
        'name': 'C12.site_inventory', 'verdict': 'discharged' if not problems else 'inconclusive', 'problems': problems,
        'queries': 0, 'solver_time_s': round(time.time() - t0, 3),
        'bounds': 'AST scan of every module under /repo/src/python_minifier for eval/exec/compile/__import__/open/os.system/'
                  'subprocess/socket/pickle/importlib/marshal/ctypes/runpy',
        'samples': [{'site': list(s), 'covered_by': COVERED.get(s, 'UNCOVERED')} for s in sites],
        'violation': None, 'functions': [],
    }]


def selftest(tier):
    return strkern.selftest_rlit(4000 if tier == 'quick' else 150000)


def obligations(tier, seed):
    n = 2 if tier == 'quick' else 3
    t = 240 if tier == 'quick' else 3000
    obs = []
    qs = range(4)
    obs.append(dict(name='C12.ministring', fn='ministring', timeout=t, public_replay='public_outer',
                    shards=[['len(s) <= %d' % n, 'q == %d' % q, 'not has_surrogate(s)'] for q in qs],
                    bounds='|s| <= %d, all non-surrogate Unicode, 4 quote styles' % n))
    obs.append(dict(name='C12.ministring_alpha', fn='ministring_alpha', timeout=t,
                    shards=[['n <= %d' % n, 'q == %d' % q] for q in qs], bounds='|s| <= %d over STR_ALPHA (incl. lone surrogates)' % n))
    qmasks = [15, 7, 11, 13, 14, 3, 5, 6, 9, 10, 12, 1, 2, 4, 8] if tier == 'thorough' else [15, 7, 6, 3, 12, 1]
    obs.append(dict(name='C12.fstr_str', fn='fstr_str', timeout=t, public_replay='public_nested_str',
                    shards=[['len(s) <= %d' % n, 'qmask == %d' % qm, 'pep701 == %s' % p, 'not has_surrogate(s)']
                            for qm in qmasks for p in (True, False)],
                    bounds='|s| <= %d, all non-surrogate Unicode, %d quote subsets, PEP 701 on/off' % (n, len(qmasks))))
    obs.append(dict(name='C12.fstr_str_alpha', fn='fstr_str_alpha', timeout=t,
                    shards=[['n <= %d' % n, 'qmask == %d' % qm, 'pep701 == %s' % p] for qm in (15, 7, 6, 3, 1, 8) for p in (True, False)],
                    bounds='|s| <= %d over STR_ALPHA, 6 quote subsets, PEP 701 on/off' % n))
    obs.append(dict(name='C12.fstr_bytes_one', fn='fstr_bytes_one', timeout=t, public_replay=None,
                    shards=[['qmask == %d' % qm] for qm in (15, 7, 3, 12)], bounds='every byte value, 4 quote subsets'))
    obs.append(dict(name='C12.fstr_bytes_alpha', fn='fstr_bytes_alpha', timeout=t,
                    shards=[['n <= %d' % n, 'qmask == %d' % qm] for qm in (15, 7, 6, 3, 1, 8)],
                    bounds='|b| <= %d over BYTE_ALPHA, 6 quote subsets' % n))
    obs.append(dict(name='C12.fold_reach', fn='fold_reach_b', timeout=t, shards=[['b11 == %s' % a, 'b10 == %s' % b] for a in (True, False) for b in (True, False)],
                    bounds='18 x 18 operand kinds x 13 operators'))
    obs.append(dict(name='C12.fold_reach.twin', fn='fold_reach_twin', timeout=t, shards=[['op == 0']], expect='refuted',
                    bounds='reachability twin'))
    return obs
