"""C10 - names the user asks to preserve are preserved.  DESIGN.md section C10."""
from harness.renamekern import *   # noqa: F401,F403
from harness.C13 import preserve_split   # noqa: F401  (CLI list splitting, shared with C13)
from harness import C03 as _c03
from vf import skeletons

META = dict(_c03.META)
META['bounds'] = _c03.META['bounds'] + '; preserve_locals / preserve_globals = a one-element list or a bare string holding a symbolic ' \
    'name P of the same length as the holes; literal __all__ lists (=, +=, annotated) with symbolic entries; CLI splitting as in C13d'
META['stubs'] = list(_c03.META['stubs']) + ['python_minifier.__main__.minify -> records its keywords (CLI splitting)']


def selftest(tier):
    return renamekern_selftest(tier)


def obligations(tier, seed):
    t = 240 if tier == 'quick' else 1200
    names = 'ABCP'
    sh1 = []
    for i, pre in enumerate(plan(skeletons.TEMPLATES, tier, seed + 2, 6, names=names, lengths_thorough=(3,),
                                 combos_thorough=[(True, True, True), (True, False, True)])):
        modes = [i % 4] if tier == 'quick' else [i % 4, (i + 2) % 4]
        for m in modes:
            sh1.append(pre + ['mode == %d' % m])
    sh2 = []
    for i, pre in enumerate(plan(skeletons.PRESERVE_TEMPLATES, tier, seed, len(skeletons.PRESERVE_TEMPLATES), names=names,
                                 combos_quick=[(True, True, True), (True, True, False)], lengths_thorough=(3,),
                                 combos_thorough=[(True, True, True), (True, True, False)])):
        modes = [(i % 2) * 3 + 1 if i % 2 == 0 else 4] if tier == 'quick' else [1, 3, 4]
        for m in modes:
            sh2.append(pre + ['mode == %d' % m])
    if tier == 'quick':
        # four symbolic names multiply the paths: the quick tier pins hole C (P, A, B stay symbolic)
        import re
        for sh in sh1 + sh2:
            L = int(re.search(r'len\(A\) == (\d+)', sh[1]).group(1))
            sh.append('C == %r' % ('c' * L))
    na, nb = (3, 1) if tier == 'quick' else (4, 2)
    return [
        dict(name='C10.preserve_respected', fn='preserve_respected', shards=sh1, timeout=t, bounds='see META', public_replay='public_preserve_respected'),
        dict(name='C10.preserve_all', fn='preserve_all', shards=sh2, timeout=t, bounds='__all__ skeletons', public_replay='public_preserve_all'),
        dict(name='C10.preserve.twin', fn='preserve_twin', shards=[['k == 4', 'len(A) == 3 and len(B) == 3 and len(C) == 3']], timeout=t,
             expect='refuted', bounds='reachability twin: without preservation the name is renamed'),
        dict(name='C10.cli_split', fn='preserve_split', shards=[['len(a) <= %d' % na, 'len(b) <= %d' % nb, 'which == %s' % w] for w in (True, False)],
             timeout=t, bounds='two occurrences, |a| <= %d, |b| <= %d' % (na, nb)),
    ]
