"""C13 - the command line tool writes exactly what the API would return.  DESIGN.md section C13.

C13a  flags -> namespace for all 2^19 subsets at once: direct z3 query over the table read from the real parser (vf/smtq.py)
C13b  namespace -> minify keywords: real do_minify, all 19 namespace booleans symbolic (CrossHair)
C13c  validation: real parse_args with ArgumentParser.parse_args returning a symbolic namespace (CrossHair)
C13d  preserve-list splitting: real do_minify with symbolic --preserve-* values (CrossHair)
The bytes written for a given API result are decided under C14 (same main()).
"""
import argparse
import inspect

import python_minifier
from python_minifier.transforms.remove_annotations_options import RemoveAnnotationsOptions
from vf.clienv import Env, Exit, namespace, BOOL_DESTS
from harness.C14 import do_minify_rule   # noqa: F401  (C13e: the bytes written are encode(api result) or the untouched original)
from vf.stubs import mod, patched

META = {
    'bounds': 'all 2^19 subsets of the boolean option flags (z3, one query); all 2^19 namespace valuations (CrossHair); '
              'validation: 1-2 path arguments of <= 2 characters, every combination of in_place/output/isdir/annotation flags; '
              'preserve lists: two occurrences, |a| <= 3 (quick) / 4 (thorough), |b| <= 1 / 2, all of Unicode',
    'outside': 'argparse internals (abbreviated options, option order, repeated boolean flags) are modelled, not executed: '
               'the model is validated on solver-chosen witnesses against the real parser each run',
    'stubs': ['python_minifier.__main__.minify -> records its keywords', 'argparse.ArgumentParser.parse_args -> returns the symbolic namespace',
              'os.path.isdir -> symbolic per path', 'open/sys -> in-memory'],
    'assumptions': ['the documented meaning of each flag is the table DOCUMENTED_FLAGS in vf/smtq.py, written from docs/source/transforms/*.rst and the help strings'],
}

# documented: namespace dest -> minify keyword
DEST_TO_KW = {
    'combine_imports': 'combine_imports', 'remove_pass': 'remove_pass', 'remove_literal_statements': 'remove_literal_statements',
    'hoist_literals': 'hoist_literals', 'rename_locals': 'rename_locals', 'rename_globals': 'rename_globals',
    'remove_object_base': 'remove_object_base', 'convert_posargs_to_args': 'convert_posargs_to_args',
    'preserve_shebang': 'preserve_shebang', 'remove_asserts': 'remove_asserts', 'remove_debug': 'remove_debug',
    'remove_explicit_return_none': 'remove_explicit_return_none', 'remove_exception_brackets': 'remove_builtin_exception_brackets',
    'constant_folding': 'constant_folding',
}
MINIFY_KEYWORDS = [p for p in inspect.signature(python_minifier.minify).parameters if p not in ('source',)]


def forwarding(b0: bool, b1: bool, b2: bool, b3: bool, b4: bool, b5: bool, b6: bool, b7: bool, b8: bool, b9: bool,
               b10: bool, b11: bool, b12: bool, b13: bool, b14: bool, b15: bool, b16: bool, b17: bool, b18: bool) -> bool:
    """
    post: _
    """
    vals = [b0, b1, b2, b3, b4, b5, b6, b7, b8, b9, b10, b11, b12, b13, b14, b15, b16, b17, b18]
    ns = namespace(['a.py'], **dict(zip(BOOL_DESTS, vals)))
    seen = {}

    def fake_minify(source, **kw):
        seen['source'] = source
        seen['kw'] = kw
        return ''

    env = Env()
    with env.installed(minify=fake_minify) as m:
        m.do_minify(b'S', 'a.py', ns)
    kw = seen['kw']
    if seen['source'] != b'S' or kw.get('filename') != 'a.py':
        return False
    # every option keyword of minify() is passed explicitly, and nothing else
    if sorted(kw) != sorted(MINIFY_KEYWORDS):
        return False
    ok = True
    for dest, k in DEST_TO_KW.items():
        # == on the symbolic booleans: decided by z3 without forking when the value is passed through untouched
        ok = ok and (kw[k] == getattr(ns, dest))
    ra = kw['remove_annotations']
    if not isinstance(ra, RemoveAnnotationsOptions):
        return False
    if ns.remove_annotations:
        ok = ok and ra.remove_variable_annotations == ns.remove_variable_annotations
        ok = ok and ra.remove_return_annotations == ns.remove_return_annotations
        ok = ok and ra.remove_argument_annotations == ns.remove_argument_annotations
        ok = ok and ra.remove_class_attribute_annotations == ns.remove_class_attribute_annotations
    else:
        ok = ok and not (ra.remove_variable_annotations or ra.remove_return_annotations
                         or ra.remove_argument_annotations or ra.remove_class_attribute_annotations)
    if not ok:
        return False
    return kw['preserve_locals'] == [] and kw['preserve_globals'] == []


def forwarding_twin(b0: bool, b14: bool) -> bool:
    """
    post: _
    """
    # reachability: the keyword really follows the namespace (must be refuted: not always True)
    ns = namespace(['a.py'], combine_imports=b0, remove_annotations=b14)
    seen = {}
    env = Env()
    with env.installed(minify=lambda source, **kw: seen.update(kw) or '') as m:
        m.do_minify(b'S', 'a.py', ns)
    return seen['combine_imports'] is True and bool(seen['remove_annotations'])


def _invalid(paths, in_place, isdir0, rcaa, ra):
    if '-' in paths and len(paths) != 1:
        return True
    if '-' in paths and in_place:
        return True
    if len(paths) > 1 and not in_place:
        return True
    if len(paths) == 1 and isdir0 and not in_place:
        return True
    if rcaa and not ra:
        return True
    return False


def validation(two: bool, p1: str, p2: str, in_place: bool, has_output: bool, d1: bool, rcaa: bool, ra: bool) -> bool:
    """
    pre: len(p1) <= 2 and len(p2) <= 2
    pre: len(p1) >= 1 and len(p2) >= 1
    pre: not (in_place and has_output)
    post: _
    """
    # argparse itself guarantees: at least one path, --output/--in-place mutually exclusive
    paths = [p1, p2] if two else [p1]
    ns = namespace(list(paths), output='o.py' if has_output else None, in_place=in_place,
                   remove_class_attribute_annotations=rcaa, remove_annotations=ra)
    env = Env(stdin=b'z=3')
    if d1:
        env.dirs[p1] = []
    exit_code = None
    result = None
    with env.installed(minify=lambda source, **kw: 'M') as m:
        with patched(argparse.ArgumentParser, 'parse_args', lambda self, *a, **k: ns):
            try:
                result = m.parse_args()
            except Exit as e:
                exit_code = e.code
    bad = _invalid(paths, in_place, d1, rcaa, ra)
    if bad:
        # rejected with a non-zero status before anything is written
        return exit_code is not None and exit_code != 0 and env.written_paths() == [] and env.stdout_bytes == b''
    return exit_code is None and result is ns


def validation_main(two: bool, p1: str, p2: str, in_place: bool, has_output: bool, d1: bool, rcaa: bool, ra: bool) -> bool:
    """
    pre: len(p1) <= 2 and len(p2) <= 2
    pre: len(p1) >= 1 and len(p2) >= 1
    pre: not (in_place and has_output)
    pre: _invalid([p1, p2] if two else [p1], in_place, d1, rcaa, ra)
    post: _
    """
    # the whole main(): an invalid combination exits non-zero and no file / stdout byte is written
    paths = [p1, p2] if two else [p1]
    ns = namespace(list(paths), output='o.py' if has_output else None, in_place=in_place,
                   remove_class_attribute_annotations=rcaa, remove_annotations=ra)
    env = Env(fs=[[p1, b'x=1'], [p2, b'y=2']], stdin=b'z=3')
    if d1:
        env.dirs[p1] = [(p1, [], ['q.py'])]
        env.fs[p1 + '/q.py'] = b'q=1'
    code = None
    with env.installed(minify=lambda source, **kw: 'M') as m:
        with patched(argparse.ArgumentParser, 'parse_args', lambda self, *a, **k: ns):
            try:
                m.main()
            except Exit as e:
                code = e.code
    return code is not None and code != 0 and env.written_paths() == [] and env.stdout_bytes == b''


def _split_documented(arg):
    """Comma separated list, surrounding whitespace ignored, empty entries dropped (independent of the code)."""
    out = []
    cur = ''
    for ch in arg:
        if ch == ',':
            out.append(cur)
            cur = ''
        else:
            cur = cur + ch
    out.append(cur)
    return [x.strip() for x in out if x.strip() != '']


def preserve_split(a: str, b: str, which: bool) -> bool:
    """
    pre: len(a) <= 4
    pre: len(b) <= 2
    post: _
    """
    dest = 'preserve_locals' if which else 'preserve_globals'
    other = 'preserve_globals' if which else 'preserve_locals'
    ns = namespace(['a.py'], **{dest: [a, b]})
    seen = {}
    env = Env()
    with env.installed(minify=lambda source, **kw: seen.update(kw) or '') as m:
        m.do_minify(b'S', 'a.py', ns)
    got = [n for n in seen[dest] if n != '']
    return got == _split_documented(a) + _split_documented(b) and seen[other] == []


def public_forwarding(**bits):
    """Replay through the real command line parser + do_minify (flags chosen so the namespace equals the counterexample)."""
    import sys
    from vf import smtq
    vals = [bits['b%d' % i] for i in range(19)]
    want = dict(zip(BOOL_DESTS, vals))
    argv = []
    for f, (dest, val, default) in smtq.DOCUMENTED_FLAGS.items():
        if want[dest] == val and val != default:
            argv.append(f)
    m = mod('python_minifier.__main__')
    seen = {}
    with patched(sys, 'argv', ['pyminify'] + argv + ['a.py']), patched(m, 'minify', lambda source, **kw: seen.update(kw) or ''):
        try:
            ns = m.parse_args()
        except SystemExit:
            return {'violated': False, 'detail': 'flag set %s is rejected by parse_args (invalid combination): namespace unreachable from the command line' % argv}
        m.do_minify(b'S', 'a.py', ns)
    bad = {}
    for f, (dest, val, default) in smtq.DOCUMENTED_FLAGS.items():
        exp = val if f in argv else default
        if dest in DEST_TO_KW and seen[DEST_TO_KW[dest]] != exp:
            bad[DEST_TO_KW[dest]] = (seen[DEST_TO_KW[dest]], exp)
    ra = seen['remove_annotations']
    on = '--no-remove-annotations' not in argv
    for fld, flag, default in [('remove_variable_annotations', '--no-remove-variable-annotations', True),
                               ('remove_return_annotations', '--no-remove-return-annotations', True),
                               ('remove_argument_annotations', '--no-remove-argument-annotations', True),
                               ('remove_class_attribute_annotations', '--remove-class-attribute-annotations', False)]:
        exp = on and ((not default) if flag in argv else default)
        if getattr(ra, fld) != exp:
            bad[fld] = (getattr(ra, fld), exp)
    return {'violated': bool(bad), 'detail': 'pyminify %s a.py -> minify keywords differ from documented: %s' % (' '.join(argv), bad)}


def direct_obligations(tier, seed):
    from vf import smtq
    r = smtq.check_flag_table(n_witness=64 if tier == 'quick' else 512)
    r['name'] = 'C13a.flag_table'
    r['bounds'] = 'all 2^%d subsets of the boolean option flags, decided by one z3 query (api + /usr/bin/z3); ' \
                  '%d witness subsets replayed on the real parser' % (r.get('flags', 0), r.get('witnesses_validated', 0))
    return [r]


def obligations(tier, seed):
    t = 240 if tier == 'quick' else 1800
    na, nb = (3, 1) if tier == 'quick' else (4, 2)
    return [
        dict(name='C13e.bytes_out', fn='do_minify_rule', shards=[['len(S) <= 3', 'len(m) <= 2']], timeout=t,
             bounds='source |S| <= 3 bytes, API result |m| <= 2 code points (shared with C14)'),
        dict(name='C13b.forwarding', fn='forwarding', shards=[[]], timeout=t, bounds='all 2^19 namespace valuations',
             public_replay='public_forwarding'),
        dict(name='C13b.forwarding.twin', fn='forwarding_twin', shards=[[]], timeout=t, expect='refuted', bounds='reachability twin'),
        dict(name='C13c.validation', fn='validation', shards=[['two == %s' % tw, 'in_place == %s' % ip] for tw in (True, False) for ip in (True, False)],
             timeout=t, bounds='1-2 paths of 1-2 characters (so "-" and any other name), all flag combinations'),
        dict(name='C13c.validation_main', fn='validation_main', shards=[['two == %s' % tw] for tw in (True, False)], timeout=t,
             bounds='same, through main(): nothing written when rejected'),
        dict(name='C13d.preserve_split', fn='preserve_split', shards=[['len(a) <= %d' % na, 'len(b) <= %d' % nb, 'which == %s' % w] for w in (True, False)],
             timeout=t, bounds='two occurrences, |a| <= %d, |b| <= %d, all of Unicode incl. every whitespace str.strip knows' % (na, nb)),
    ]
