"""C06 - hoisted literals are bound once, before use, to an identical value.  DESIGN.md section C06."""
from harness.renamekern import *   # noqa: F401,F403
from harness import C03 as _c03
from vf import skeletons

META = dict(_c03.META)
META['bounds'] = 'hoisting skeletons (vf/skeletons.py HOIST_TEMPLATES: %d programs with literals at module level, in nested defs, class ' \
    'bodies, lambdas, comprehensions, defaults, decorator arguments, f-string expression and literal parts, match patterns, ' \
    '__slots__, docstring positions, after from __future__ imports; str/bytes/None/True/1/1.0/0/False/0.0 literals) with three ' \
    'symbolic identifier holes of one fixed length; rename_locals x rename_globals; insert() kernel: statement-kind lists of ' \
    'length <= 4 with a symbolic module name' % len(skeletons.HOIST_TEMPLATES)
META['outside'] = _c03.META['outside'] + '; literal values are concrete per skeleton (their equality/type pattern is what hoisting looks at)'


def selftest(tier):
    return renamekern_selftest(tier)


def obligations(tier, seed):
    t = 240 if tier == 'quick' else 1200
    n = len(skeletons.HOIST_TEMPLATES)
    combos = [(True, False), (True, True), (False, False), (False, True)]
    shards = []
    for k in range(n):
        name_k = skeletons.HOIST_TEMPLATES[k][0]
        quick_lengths = (3,) if name_k.startswith('folded_') else (1,) if name_k in ('one_true_float', 'none_true_bytes') else ((1, 3) if name_k in ('import_and_literal', 'decorator_only') else ((1, 3)[(k + seed) % 2],))
        for L in (quick_lengths if tier == 'quick' else (1, 3)):
            cs = [combos[(k // 2 + seed + L) % 4]] if tier == 'quick' else combos[:2]
            if tier == 'quick' and L == 1 and name_k in ('import_and_literal', 'decorator_only'):
                cs = [(True, True)]     # one-character names with every binding renameable: where generated names meet the program's own
            for (rl, rg) in cs:
                pre = ['k == %d' % k, 'len(A) == %d and len(B) == %d and len(C) == %d' % (L, L, L),
                       '"." not in A and "." not in B and "." not in C', 'rl == %s' % rl, 'rg == %s' % rg]
                if skeletons.HOIST_TEMPLATES[k][0] in ('one_true_float', 'none_true_bytes'):
                    pre.append(('A == %r and B == %r' % ('a' * L, 'b' * L)) if tier == 'quick' else ('B == %r and C == %r' % ('b' * L, 'c' * L)))
                    if tier == 'quick' and skeletons.HOIST_TEMPLATES[k][0] == 'one_true_float':
                        pre.append('C == %r' % ('c' * L))     # 28 literals of 6 hoistable values: concrete names in the quick tier     # many hoisted values: pin two holes in the quick tier
                if name_k.startswith('folded_'):
                    pre.append('C == %r' % ('c' * L))     # the free name is irrelevant to folding + hoisting: pinned
                shards.append(pre)
    return [
        dict(name='C06.hoist_ok', fn='hoist_ok', shards=shards, timeout=t, bounds='see META', public_replay='public_hoist_ok'),
        dict(name='C06.hoist.twin', fn='hoist_twin', shards=[['k == 1', 'len(A) == 3 and len(B) == 3 and len(C) == 3']], timeout=t,
             expect='refuted', bounds='reachability twin: a literal is hoisted'),
        dict(name='C06.insert_kernel', fn='insert_kernel', shards=[['n == %d' % i] for i in range(5)], timeout=t,
             bounds='all statement-kind lists of length <= 4 over 5 kinds, symbolic module name |fut| <= 10'),
    ]
