"""String / bytes literal kernels shared by C02 (round trip), C08 (totality) and C12 (what is handed to eval).

Real code executed symbolically: ministring.MiniString.__str__/to_short/to_long, f_string.Str.__str__/_literals/
_get_quote/_can_quote, f_string.Bytes.*, f_string.OuterFString.str_for.
Stub: `eval` in python_minifier.ministring and python_minifier.f_string -> vf.rlit.eval_literal_text, the reference
decoder: it returns the value CPython would compute for a closed literal text, raises what eval would raise for a
text the compiler refuses, and raises NotClosedLiteral for any text that is not a sequence of literal tokens.
"""
import contextlib

from vf import rlit
from vf.stubs import mod, patched

QUOTES = ["'", '"', "'''", '"""']
ALLOWED_ORDER = ['"', "'", '"""', "'''"]     # the order OuterFString uses


@contextlib.contextmanager
def eval_stubbed():
    with patched(mod('python_minifier.ministring'), 'eval', rlit.eval_literal_text), \
            patched(mod('python_minifier.f_string'), 'eval', rlit.eval_literal_text):
        yield


def _allowed(qmask):
    return [q for i, q in enumerate(ALLOWED_ORDER) if (qmask >> i) & 1]


def has_surrogate(s):
    for c in s:
        if 0xD800 <= ord(c) <= 0xDFFF:
            return True
    return False


def ministring(s: str, q: int) -> bool:
    """
    pre: 0 <= q <= 3
    pre: len(s) <= 4
    post: _
    """
    # C02e + C08b + C12: total, every eval argument is a closed literal, and the body decodes back to s
    from python_minifier.ministring import MiniString
    quote = QUOTES[q]
    with eval_stubbed():
        body = str(MiniString(s, quote))
    if s == '':
        return body == ''
    try:
        kind, value = rlit.decode_literal_sequence(quote + body + quote)
    except UnicodeEncodeError:
        return False    # the printed text must be encodable (it becomes part of the module source)
    return kind == 'str' and value == s


def ministring_twin(s: str) -> bool:
    """
    pre: len(s) <= 2
    post: _
    """
    # reachability: some string needs an escape (body differs from s) -> must be refuted
    from python_minifier.ministring import MiniString
    with eval_stubbed():
        return str(MiniString(s, "'")) == s


def outer_str_for(s: str, q: int) -> bool:
    """
    pre: 0 <= q <= 3
    pre: len(s) <= 4
    post: _
    """
    # literal text of the outermost f-string: braces doubled, everything else a valid literal body for that quote
    from python_minifier.f_string import OuterFString
    import ast
    node = ast.JoinedStr(values=[])
    quote = QUOTES[q]
    with eval_stubbed():
        t = OuterFString(node, pep701=True).str_for(s, quote)
    # un-double braces left to right; a single brace would start an expression part
    plain = []
    i = 0
    n = len(t)
    while i < n:
        c = t[i]
        if c == '{' or c == '}':
            if i + 1 < n and t[i + 1] == c:
                plain.append(c)
                i += 2
                continue
            return False
        plain.append(c)
        i += 1
    kind, value = rlit.decode_literal_sequence(quote + ''.join(plain) + quote)
    return kind == 'str' and value == s


def _fstr_str(s, qmask, pep701, total):
    from python_minifier.f_string import Str
    allowed = _allowed(qmask)
    with eval_stubbed():
        try:
            t = str(Str(s, list(allowed), pep701))
        except (ValueError, UnicodeEncodeError, SyntaxError):
            # may legitimately fail when the string cannot be written with the quotes that are still allowed;
            # on 3.12 with all four quotes available every string is representable (C08b)
            return not (total and pep701 and qmask == 15)
    kind, value = rlit.decode_literal_sequence(t)
    if not (kind == 'str' and value == s):
        return False
    if not pep701:
        # before PEP 701 no backslash may appear in an f-string expression part
        if '\\' in t:
            return False
    return True


def fstr_str(s: str, qmask: int, pep701: bool) -> bool:
    """
    pre: 1 <= qmask <= 15
    pre: len(s) <= 4
    post: _
    """
    # a Str node in the expression part of an f-string: if a text is produced it is a literal sequence denoting s,
    # everything handed to eval is a closed literal, and only ValueError / UnicodeEncodeError may be raised
    return _fstr_str(s, qmask, pep701, False)


def fstr_str_total(s: str) -> bool:
    """
    pre: len(s) <= 4
    post: _
    """
    # C08b: on 3.12 (PEP 701, all four quotes available) every string has a representation
    return _fstr_str(s, 15, True, True)


def _fstr_bytes(b, qmask, total, pep701=False):
    from python_minifier.f_string import Bytes
    allowed = _allowed(qmask)
    with eval_stubbed():
        try:
            t = str(Bytes(b, list(allowed), pep701)) if pep701 else str(Bytes(b, list(allowed)))
        except (ValueError, SyntaxError, UnicodeEncodeError, AssertionError):
            return not (total and qmask == 15)
    kind, value = rlit.decode_literal_sequence(t)
    return kind == 'bytes' and value == b


def fstr_bytes(b: bytes, qmask: int) -> bool:
    """
    pre: 1 <= qmask <= 15
    pre: len(b) <= 4
    post: _
    """
    return _fstr_bytes(b, qmask, False)


def fstr_bytes_total(b: bytes) -> bool:
    """
    pre: len(b) <= 4
    post: _
    """
    # C08b: with all four quotes available and PEP 701 (3.12) every bytes value has a representation
    return _fstr_bytes(b, 15, True, True)


def bytes_known_class(b):
    # the byte values f_string.Bytes cannot write (known finding F09b): NUL, CR, backslash, non-ASCII
    for c in b:
        if c == 0 or c == 13 or c == 92 or c >= 128:
            return True
    return False


def str_known_class(s):
    # the characters f_string.Str cannot write on 3.12 (known finding F09a): NUL and lone surrogates
    for c in s:
        o = ord(c)
        if o == 0 or 0xD800 <= o <= 0xDFFF:
            return True
    return False


def minibytes_closed(b: bytes, q: int) -> bool:
    """
    pre: 0 <= q <= 3
    pre: len(b) <= 3
    post: _
    """
    # MiniBytes is dead code (referenced nowhere); only the C12 question is asked: what reaches eval is a closed literal
    from python_minifier.ministring import MiniBytes
    with eval_stubbed():
        try:
            str(MiniBytes(b, QUOTES[q]))
        except (AssertionError, SyntaxError, UnicodeEncodeError):
            return True
    return True


# ---------------------------------------------------------------------------------------------------------------
# representative-alphabet variants: the characters whose handling needs int -> text conversion inside the real code
# (safe-mode \\uXXXX escapes for surrogates, chr(byte)) cannot stay symbolic (z3 str.from_int answers unknown), so
# they are drawn from a stated finite alphabet by structure parameters and combined exhaustively.
STR_ALPHA = ['\ud800', '\udfff', 'a', "'", '"', '\\', '\n', '\r', '\x00', '\xe9', '\u20ac', '\U0001F600', '{', '}']
BYTE_ALPHA = [0, 9, 10, 13, 34, 39, 92, 97, 123, 127, 128, 255]


def _alpha_str(n, i0, i1, i2):
    idx = [i0, i1, i2][:n]
    return ''.join([STR_ALPHA[i] for i in idx])


def _alpha_bytes(n, i0, i1, i2):
    idx = [i0, i1, i2][:n]
    return bytes([BYTE_ALPHA[i] for i in idx])


def ministring_alpha(n: int, i0: int, i1: int, i2: int, q: int) -> bool:
    """
    pre: 0 <= n <= 3 and 0 <= q <= 3
    pre: 0 <= i0 < 14 and 0 <= i1 < 14 and 0 <= i2 < 14
    pre: (n > 1 or i1 == 0) and (n > 2 or i2 == 0)
    post: _
    """
    return ministring(_alpha_str(n, i0, i1, i2), q)


def outer_str_for_alpha(n: int, i0: int, i1: int, i2: int, q: int) -> bool:
    """
    pre: 0 <= n <= 3 and 0 <= q <= 3
    pre: 0 <= i0 < 14 and 0 <= i1 < 14 and 0 <= i2 < 14
    pre: (n > 1 or i1 == 0) and (n > 2 or i2 == 0)
    post: _
    """
    return outer_str_for(_alpha_str(n, i0, i1, i2), q)


def fstr_str_alpha(n: int, i0: int, i1: int, i2: int, qmask: int, pep701: bool) -> bool:
    """
    pre: 0 <= n <= 3 and 1 <= qmask <= 15
    pre: 0 <= i0 < 14 and 0 <= i1 < 14 and 0 <= i2 < 14
    pre: (n > 1 or i1 == 0) and (n > 2 or i2 == 0)
    post: _
    """
    return _fstr_str(_alpha_str(n, i0, i1, i2), qmask, pep701, False)


def fstr_str_total_alpha(n: int, i0: int, i1: int, i2: int) -> bool:
    """
    pre: 0 <= n <= 3
    pre: 0 <= i0 < 14 and 0 <= i1 < 14 and 0 <= i2 < 14
    pre: (n > 1 or i1 == 0) and (n > 2 or i2 == 0)
    post: _
    """
    return _fstr_str(_alpha_str(n, i0, i1, i2), 15, True, True)


def fstr_bytes_alpha(n: int, i0: int, i1: int, i2: int, qmask: int) -> bool:
    """
    pre: 0 <= n <= 3 and 1 <= qmask <= 15
    pre: 0 <= i0 < 12 and 0 <= i1 < 12 and 0 <= i2 < 12
    pre: (n > 1 or i1 == 0) and (n > 2 or i2 == 0)
    post: _
    """
    return _fstr_bytes(_alpha_bytes(n, i0, i1, i2), qmask, False)


def fstr_bytes_total_alpha(n: int, i0: int, i1: int, i2: int) -> bool:
    """
    pre: 0 <= n <= 3
    pre: 0 <= i0 < 12 and 0 <= i1 < 12 and 0 <= i2 < 12
    pre: (n > 1 or i1 == 0) and (n > 2 or i2 == 0)
    post: _
    """
    return _fstr_bytes(_alpha_bytes(n, i0, i1, i2), 15, True, True)


def alpha_str_known(n, i0, i1, i2):
    return str_known_class(_alpha_str(n, i0, i1, i2))


def alpha_bytes_known(n, i0, i1, i2):
    return bytes_known_class(_alpha_bytes(n, i0, i1, i2))


def fstr_bytes_one(v: int, qmask: int) -> bool:
    """
    pre: 0 <= v <= 255 and 1 <= qmask <= 15
    post: _
    """
    # every single byte value
    return _fstr_bytes(bytes([v]), qmask, False)


# ---------------------------------------------------------------------------------------------------------------
# public-API replays


def _minify_off(src):
    import python_minifier
    from vf.stubs import ALL_OFF
    return python_minifier.minify(src, **ALL_OFF)


def public_outer(s, q=0, **kw):
    """f-string whose literal part is s, through the real minify (all transforms off) and the real parser."""
    import ast
    tree = ast.Module(body=[ast.Expr(value=ast.JoinedStr(values=[ast.Constant(value=s), ast.FormattedValue(value=ast.Name(id='x', ctx=ast.Load()), conversion=-1, format_spec=None)]))], type_ignores=[])
    return _public_tree(tree)


def public_nested_str(s, qmask=15, pep701=True, **kw):
    import ast
    tree = ast.Module(body=[ast.Expr(value=ast.JoinedStr(values=[ast.FormattedValue(value=ast.Constant(value=s), conversion=-1, format_spec=None)]))], type_ignores=[])
    return _public_tree(tree)


def public_nested_bytes(b, qmask=15, **kw):
    import ast
    tree = ast.Module(body=[ast.Expr(value=ast.JoinedStr(values=[ast.FormattedValue(value=ast.Constant(value=b), conversion=-1, format_spec=None)]))], type_ignores=[])
    return _public_tree(tree)


def _public_tree(tree):
    import ast
    import python_minifier
    ast.fix_missing_locations(tree)
    try:
        src = ast.unparse(tree)
        want = ast.dump(ast.parse(src))
    except Exception as e:  # noqa
        return {'violated': False, 'detail': 'CPython cannot print/parse this tree itself (%r): outside the precondition' % (e,)}
    try:
        out = _minify_off(src)
    except Exception as e:  # noqa
        return {'violated': True, 'detail': 'minify(%r) raised %r' % (src, e)}
    try:
        got = ast.dump(ast.parse(out))
    except Exception as e:  # noqa
        return {'violated': True, 'detail': 'minify(%r) -> %r which does not parse: %r' % (src, out, e)}
    return {'violated': got != want, 'detail': 'minify(%r) -> %r' % (src, out)}


def selftest_rlit(n_random):
    """R-lit against the real compiler on concrete texts (DESIGN.md 3.3).  Returns the number of texts compared."""
    import ast
    import itertools
    import random
    import warnings
    warnings.simplefilter('ignore')
    alpha = ["'", '"', '\\', 'n', 'x', '0', '1', '7', '8', 'b', 'r', 'u', 'N', '{', '}', 'a', '\n', '\r', '\t', ' ', 'é',
             '\U0001F600', '\ud800', '\x00', 'f', 'U', 'A']

    def real(t):
        try:
            tree = ast.parse(t.lstrip(' \t'), mode='eval')
        except UnicodeEncodeError:
            return ('uni',)
        except (SyntaxError, ValueError):
            return ('syn',)
        if isinstance(tree.body, ast.Constant) and isinstance(tree.body.value, (str, bytes)):
            return ('val', tree.body.value)
        return ('other',)

    def ref(t):
        try:
            k, v = rlit.decode_literal_sequence(t)
            return ('val', v)
        except rlit.LitSyntaxError:
            return ('syn',)
        except UnicodeEncodeError:
            return ('uni',)
        except rlit.NotClosedLiteral:
            return ('notclosed',)

    count = 0

    def check(t):
        nonlocal count
        a = real(t)
        b = ref(t)
        count += 1
        if b[0] == 'notclosed':
            return
        if a != b:
            raise AssertionError('R-lit disagrees with the compiler on %r: compiler %r, R-lit %r' % (t, a, b))

    for L in range(0, 4):
        for tup in itertools.product(alpha[:16], repeat=L):
            check(''.join(tup))
    rnd = random.Random(12345)
    for _ in range(n_random):
        t = ''.join(rnd.choice(alpha) for _ in range(rnd.randrange(1, 10)))
        check(t)
        check("'" + t + "'")
        check('"""' + t + '"""')
        check("b'" + t + "'")
    return count
