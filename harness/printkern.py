"""C02 / C08 kernels over the bounded grammar G (harness/grammar.py): print -> parse -> strict compare, and totality."""
import ast

import python_minifier
from harness import grammar as G
from vf.stubs import ALL_OFF, untraced, bits_index

N_SLOT = G.N_SLOT
N_CHILD = G.N_CHILD
N_STMT = G.N_STMT

OPTION_NAMES = ['remove_annotations', 'remove_pass', 'remove_literal_statements', 'combine_imports', 'hoist_literals', 'rename_locals',
                'rename_globals', 'remove_object_base', 'convert_posargs_to_args', 'preserve_shebang', 'remove_asserts', 'remove_debug',
                'remove_explicit_return_none', 'remove_builtin_exception_brackets', 'constant_folding']
DEFAULTS = dict(remove_annotations=True, remove_pass=True, remove_literal_statements=False, combine_imports=True, hoist_literals=True,
                rename_locals=True, rename_globals=False, remove_object_base=True, convert_posargs_to_args=True, preserve_shebang=True,
                remove_asserts=False, remove_debug=False, remove_explicit_return_none=True, remove_builtin_exception_brackets=True,
                constant_folding=True)


def option_vector(i):
    """0 default, 1 all off, 2 all on, then each single deviation from default, then from all-off."""
    n = len(OPTION_NAMES)
    if i == 0:
        return dict(DEFAULTS)
    if i == 1:
        return dict(ALL_OFF)
    if i == 2:
        return {k: True for k in OPTION_NAMES}
    if i < 3 + n:
        o = dict(DEFAULTS)
        k = OPTION_NAMES[i - 3]
        o[k] = not o[k]
        return o
    o = dict(ALL_OFF)
    k = OPTION_NAMES[i - 3 - n]
    o[k] = True
    return o


N_OV = 3 + 2 * len(OPTION_NAMES)


def _strict_same(text_out, tree):
    try:
        back = ast.parse(text_out)
    except SyntaxError:
        return False
    return ast.dump(back) == ast.dump(tree)


def expr_roundtrip(b0: bool, b1: bool, b2: bool, b3: bool, b4: bool, b5: bool, b6: bool, b7: bool, b8: bool, b9: bool, b10: bool, b11: bool, b12: bool, b13: bool) -> bool:
    """
    post: _
    """
    idx = bits_index(b0, b1, b2, b3, b4, b5, b6, b7, b8, b9, b10, b11, b12, b13)
    if idx >= N_SLOT * N_CHILD:
        return True
    return untraced(_expr_roundtrip_impl, idx // N_CHILD, idx % N_CHILD)


def _expr_roundtrip_impl(p, c):
    # C02a: every expression slot x child kind, through the real unparse() (printer + its own self check)
    adm = G.expr_tree(p, c)
    if adm is None:
        return True     # not a tree the parser can produce: outside the precondition
    tree, text = adm
    out = python_minifier.unparse(ast.parse(text))     # an exception here means no identical-tree text exists: a violation
    return _strict_same(out, tree)


def expr_roundtrip3(b0: bool, b1: bool, b2: bool, b3: bool, b4: bool, b5: bool, b6: bool, b7: bool, b8: bool, b9: bool, b10: bool, b11: bool, b12: bool, b13: bool, b14: bool, b15: bool, b16: bool, b17: bool, b18: bool, b19: bool, b20: bool) -> bool:
    """
    post: _
    """
    # b0-b13: child x grand-child index, b14-b20: slot
    idx = bits_index(b0, b1, b2, b3, b4, b5, b6, b7, b8, b9, b10, b11, b12, b13, b14, b15, b16, b17, b18, b19, b20)
    p = idx >> 14
    idx = idx & 16383
    if p >= N_SLOT or idx >= N_CHILD * N_CHILD:
        return True
    return untraced(_expr_roundtrip3_impl, p, idx // N_CHILD, idx % N_CHILD)


def _expr_roundtrip3_impl(p, c, g):
    adm = G.expr_tree(p, c, g)
    if adm is None:
        return True
    tree, text = adm
    out = python_minifier.unparse(ast.parse(text))
    return _strict_same(out, tree)


def stmt_roundtrip(b0: bool, b1: bool, b2: bool, b3: bool, b4: bool, b5: bool, b6: bool, b7: bool, b8: bool, b9: bool, b10: bool, b11: bool, b12: bool, b13: bool, b14: bool, b15: bool, b16: bool, b17: bool, b18: bool, b19: bool, b20: bool) -> bool:
    """
    post: _
    """
    # b0-b13: statement template x child index, b14-b20: second child kind
    idx = bits_index(b0, b1, b2, b3, b4, b5, b6, b7, b8, b9, b10, b11, b12, b13, b14, b15, b16, b17, b18, b19, b20)
    c2 = idx >> 14
    idx = idx & 16383
    if c2 >= N_CHILD or idx >= N_STMT * N_CHILD:
        return True
    return untraced(_stmt_roundtrip_impl, idx // N_CHILD, idx % N_CHILD, c2)


def _stmt_roundtrip_impl(s, c, c2):
    # C02b: with every transform disabled minify() returns text whose tree is identical to the tree of the input
    adm = G.stmt_tree(s, c, c2)
    if adm is None:
        return True
    tree, text = adm
    out = python_minifier.minify(text, **ALL_OFF)
    return _strict_same(out, tree)


def expr_twin(p: int, c: int) -> bool:
    """
    pre: 0 <= p < N_SLOT
    pre: 0 <= c < N_CHILD
    post: _
    """
    return untraced(_expr_twin_impl, p, c)


def _expr_twin_impl(p, c):
    # reachability: some admitted tree needs parentheses in the output (must be refuted)
    adm = G.expr_tree(p, c)
    if adm is None:
        return True
    tree, text = adm
    return '(' not in python_minifier.unparse(ast.parse(text)).split('=', 1)[1]


def minify_total(b0: bool, b1: bool, b2: bool, b3: bool, b4: bool, b5: bool, b6: bool, b7: bool, b8: bool, b9: bool, b10: bool, b11: bool, b12: bool, b13: bool, b14: bool, b15: bool, b16: bool, b17: bool, b18: bool, b19: bool) -> bool:
    """
    post: _
    """
    # b0-b13: statement template x child index, b14-b19: option vector
    idx = bits_index(b0, b1, b2, b3, b4, b5, b6, b7, b8, b9, b10, b11, b12, b13, b14, b15, b16, b17, b18, b19)
    ov = idx >> 14
    idx = idx & 16383
    if ov >= N_OV or idx >= N_STMT * N_CHILD:
        return True
    return untraced(_minify_total_impl, idx // N_CHILD, idx % N_CHILD, ov)


def _minify_total_impl(s, c, ov):
    # C08a: a compilable module is minified without error into a compilable module, under every option vector
    adm = G.stmt_tree(s, c, 1)
    if adm is None:
        return True
    tree, text = adm
    if not G.compiles(text):
        return True
    out = python_minifier.minify(text, **option_vector(ov))
    return G.compiles(out)


def minify_total_expr(b0: bool, b1: bool, b2: bool, b3: bool, b4: bool, b5: bool, b6: bool, b7: bool, b8: bool, b9: bool, b10: bool, b11: bool, b12: bool, b13: bool, b14: bool, b15: bool, b16: bool, b17: bool, b18: bool, b19: bool) -> bool:
    """
    post: _
    """
    # b0-b13: slot x child index, b14-b19: option vector
    idx = bits_index(b0, b1, b2, b3, b4, b5, b6, b7, b8, b9, b10, b11, b12, b13, b14, b15, b16, b17, b18, b19)
    ov = idx >> 14
    idx = idx & 16383
    if ov >= N_OV or idx >= N_SLOT * N_CHILD:
        return True
    return untraced(_minify_total_expr_impl, idx // N_CHILD, idx % N_CHILD, ov)


def _minify_total_expr_impl(p, c, ov):
    adm = G.expr_tree(p, c)
    if adm is None:
        return True
    tree, text = adm
    if not G.compiles(text):
        return True
    out = python_minifier.minify(text, **option_vector(ov))
    return G.compiles(out)


def rejects_with_syntax_error(o0: bool, o1: bool, o2: bool, o3: bool, o4: bool, o5: bool) -> bool:
    """
    post: _
    """
    # C08c: if the parser rejects the source, the caller gets that SyntaxError and nothing else, whatever the options
    from vf.stubs import patched
    import python_minifier.ast_compat as astc

    class Marker(SyntaxError):
        pass

    def raising_parse(*a, **k):
        raise Marker('invalid syntax')

    with patched(astc, 'parse', raising_parse):
        try:
            python_minifier.minify('def', remove_pass=o0, hoist_literals=o1, rename_locals=o2, rename_globals=o3,
                                   remove_literal_statements=o4, preserve_shebang=o5)
        except Marker:
            return True
        except BaseException as e:  # noqa
            if type(e).__name__ in ('IgnoreAttempt', 'UnexploredPath', 'NotDeterministic', 'CrosshairUnsupported', 'CrossHairInternal'):
                raise
            return False
    return False


DIGIT_COUNTS = [1, 2, 3, 5, 18, 19, 20, 21, 100, 4299, 4300, 4301, 6000]


def integer_total(di: int, first: int, prev: int) -> bool:
    """
    pre: 0 <= di < len(DIGIT_COUNTS)
    pre: first == 1
    pre: 0 <= prev <= 9
    post: _
    """
    digits = DIGIT_COUNTS[di]
    # C08b: TokenPrinter.integer never raises, for every magnitude; repr() is stubbed by its documented contract
    # (ValueError above sys.get_int_max_str_digits() digits), hex() by a length model
    import sys
    from python_minifier import token_printer as tp
    limit = sys.get_int_max_str_digits()

    class V(object):
        # stands for the integer first * 10**(digits-1): only its digit count matters to the code under test
        pass

    def fake_repr(v):
        if digits > limit:
            raise ValueError('Exceeds the limit (%d digits) for integer string conversion' % limit)
        return 'D' * digits

    def fake_hex(v):
        # hex text is about 0.83 x the decimal length + 2
        return '0x' + 'H' * ((digits * 5) // 6 + 1)

    printer = tp.TokenPrinter()
    printer.previous_token = prev
    with patched_many(tp, repr=fake_repr, hex=fake_hex):
        try:
            printer.integer(V())
        except ValueError:
            return False
    return len(str(printer)) > 0


def patched_many(module, **kw):
    import contextlib
    from vf.stubs import patched
    st = contextlib.ExitStack()
    for k, v in kw.items():
        st.enter_context(patched(module, k, v))
    return st


def public_integer_total(di, first, prev):
    digits = DIGIT_COUNTS[di]
    src = 'x=0x' + format(first * 10 ** (digits - 1), 'x')
    try:
        compile(src, 's', 'exec')
    except Exception as e:  # noqa
        return {'violated': False, 'detail': 'source does not compile: %r' % (e,)}
    try:
        out = python_minifier.minify(src)
        compile(out, 'o', 'exec')
    except Exception as e:  # noqa
        return {'violated': True, 'detail': 'integer with %d decimal digits: minify raised %r' % (digits, e)}
    return {'violated': False, 'detail': 'ok'}


def fstring_known_bits(*bits):
    idx = bits_index(*bits) & 16383
    if idx >= N_SLOT * N_CHILD:
        return False
    return fstring_known(idx // N_CHILD, idx % N_CHILD)


def fstring_known(p, c):
    """Known finding F09: a str/bytes constant holding NUL, CR, a backslash or non-ASCII bytes nested in an f-string."""
    return G.CHILD[c] in ('b"\\x00\\xff"', '"\\x00"') and 'f"' in G.SLOT[p]


def public_minify_total_expr(**bits):
    idx = bits_index(*[bits['b%d' % i] for i in range(20)])
    ov = idx >> 14
    idx = idx & 16383
    p, c = idx // N_CHILD, idx % N_CHILD
    adm = G.expr_tree(p, c)
    if adm is None:
        return {'violated': False, 'detail': 'not admitted'}
    tree, text = adm
    try:
        out = python_minifier.minify(text, **option_vector(ov))
    except Exception as e:  # noqa
        return {'violated': True, 'detail': 'minify(%r, option vector %d) raised %r' % (text, ov, e)}
    return {'violated': not G.compiles(out), 'detail': 'minify(%r) -> %r' % (text, out)}


# --- quick-tier variants: every slot / statement template x the 32 INTERESTING child kinds (12-bit index) -----------
def expr_roundtrip_q(b0: bool, b1: bool, b2: bool, b3: bool, b4: bool, b5: bool, b6: bool, b7: bool, b8: bool, b9: bool, b10: bool, b11: bool) -> bool:
    """
    post: _
    """
    idx = bits_index(b0, b1, b2, b3, b4, b5, b6, b7, b8, b9, b10, b11)
    p, j = idx >> 5, idx & 31
    if p >= N_SLOT:
        return True
    return untraced(_expr_roundtrip_impl, p, (G.INTERESTING_ALT if p % 2 else G.INTERESTING_ALT2) if (j == 31 and p % 3) else G.INTERESTING[j])


def stmt_roundtrip_q(b0: bool, b1: bool, b2: bool, b3: bool, b4: bool, b5: bool, b6: bool, b7: bool, b8: bool, b9: bool, b10: bool, b11: bool) -> bool:
    """
    post: _
    """
    idx = bits_index(b0, b1, b2, b3, b4, b5, b6, b7, b8, b9, b10, b11)
    s, j = idx >> 5, idx & 31
    if s >= N_STMT:
        return True
    return untraced(_stmt_roundtrip_impl, s, G.INTERESTING_ALT if (j == 31 and s % 2) else G.INTERESTING[j], G.INTERESTING[(j + 7) % 32])


def minify_total_q(b0: bool, b1: bool, b2: bool, b3: bool, b4: bool, b5: bool, b6: bool, b7: bool, b8: bool, b9: bool, b10: bool, b11: bool, b12: bool, b13: bool, b14: bool, b15: bool, b16: bool, b17: bool) -> bool:
    """
    post: _
    """
    # b0-b11 statement template x interesting child, b12-b17 option vector
    idx = bits_index(b0, b1, b2, b3, b4, b5, b6, b7, b8, b9, b10, b11, b12, b13, b14, b15, b16, b17)
    ov = idx >> 12
    idx = idx & 4095
    s, j = idx >> 5, idx & 31
    if ov >= N_OV or s >= N_STMT:
        return True
    return untraced(_minify_total_impl, s, G.INTERESTING[j], ov)


def minify_total_expr_q(b0: bool, b1: bool, b2: bool, b3: bool, b4: bool, b5: bool, b6: bool, b7: bool, b8: bool, b9: bool, b10: bool, b11: bool, b12: bool, b13: bool, b14: bool, b15: bool, b16: bool, b17: bool) -> bool:
    """
    post: _
    """
    idx = bits_index(b0, b1, b2, b3, b4, b5, b6, b7, b8, b9, b10, b11, b12, b13, b14, b15, b16, b17)
    ov = idx >> 12
    idx = idx & 4095
    p, j = idx >> 5, idx & 31
    if ov >= N_OV or p >= N_SLOT:
        return True
    return untraced(_minify_total_expr_impl, p, (G.INTERESTING_ALT if p % 2 else G.INTERESTING_ALT2) if (j == 31 and p % 3) else G.INTERESTING[j], ov)
