"""C04 - externally visible names are never changed.  DESIGN.md section C04."""
from harness.renamekern import *   # noqa: F401,F403
from harness import C03 as _c03
from vf import skeletons

META = dict(_c03.META)
META['bounds'] = _c03.META['bounds'] + '; interface positions: attributes, keyword arguments, import names, class-body names, ' \
    'keyword-passable parameters (every parameter kind, methods with/without decorators, lambdas), dunder names, unbound names, ' \
    'module-level names with rename_globals off'


def selftest(tier):
    return renamekern_selftest(tier)


def arg_rule(dec: str, A: str, kind: int, in_class: bool, is_lambda: bool) -> bool:
    """
    pre: 0 <= kind <= 5
    pre: len(dec) <= 11 and len(A) <= 4
    post: _
    """
    # kernel: rename/util.py:arg_rename_in_place on every parameter position, symbolic decorator and parameter name
    import ast
    from python_minifier.rename.util import arg_rename_in_place
    from python_minifier.rename import add_namespace
    from python_minifier.ast_annotation import add_parent
    a = ast.arg(arg=A, annotation=None)
    other = ast.arg(arg='zz', annotation=None)
    args = ast.arguments(posonlyargs=[], args=[], vararg=None, kwonlyargs=[], kw_defaults=[], kwarg=None, defaults=[])
    # kind: 0 first positional, 1 second positional, 2 positional-only (second), 3 *vararg, 4 keyword-only, 5 **kwarg
    if kind == 0:
        args.args = [a, other]
    elif kind == 1:
        args.args = [other, a]
    elif kind == 2:
        args.posonlyargs = [other, a]
    elif kind == 3:
        args.args = [other]
        args.vararg = a
    elif kind == 4:
        args.args = [other]
        args.kwonlyargs = [a]
        args.kw_defaults = [None]
    else:
        args.args = [other]
        args.kwarg = a
    body_expr = ast.Name(id=A, ctx=ast.Load())
    if is_lambda:
        fn = ast.Lambda(args=args, body=body_expr)
        holder = ast.Assign(targets=[ast.Name(id='f', ctx=ast.Store())], value=fn)
    else:
        decs = [ast.Name(id=dec, ctx=ast.Load())] if dec != '' else []
        fn = ast.FunctionDef(name='m', args=args, body=[ast.Return(value=body_expr)], decorator_list=decs, returns=None)
        holder = fn
    if in_class:
        top = ast.ClassDef(name='K', bases=[], keywords=[], body=[holder], decorator_list=[])
    else:
        top = holder
    module = ast.Module(body=[top], type_ignores=[])
    ast.fix_missing_locations(module)
    add_parent(module)
    add_namespace(module)
    got = arg_rename_in_place(a)
    expected = kind in (2, 3, 5) or (kind == 0 and in_class and not is_lambda and (dec == '' or dec == 'classmethod'))
    return got == expected


def obligations(tier, seed):
    t = 240 if tier == 'quick' else 1200
    return [
        dict(name='C04.interface_names', fn='interface_names', shards=plan(skeletons.TEMPLATES, tier, seed + 1, 10, pin_c_quick=True, always=('walrus_nested_module',)), timeout=t,
             bounds='see META; quick = walrus_nested_module + a seeded rotation of 9 more skeletons', public_replay='public_interface_names'),
        dict(name='C04.interface_names_ann', fn='interface_names_ann', timeout=t,
             shards=[['k == %d' % k, 'len(A) == %d and len(B) == %d and len(C) == %d' % (L, L, L), '"." not in A and "." not in B and "." not in C', 'rl == True', 'rg == %s' % rg] + (['C == %r' % ('c' * L)] if tier == 'quick' and L > 1 else [])
                     for k in range(len(skeletons.ANN_TEMPLATES)) for (L, rg) in (((1, True), (3, False)) if tier == 'quick' else ((1, True), (1, False), (3, True), (3, False)))],
             bounds='3 skeletons with annotated class attributes / locals, remove_annotations (all kinds) on'),
        dict(name='C04.arg_rule', fn='arg_rule', shards=[['kind == %d' % kd] for kd in range(6)], timeout=t,
             bounds='6 parameter kinds x in/out of class x def/lambda, decorator name |dec| <= 11 and parameter name |A| <= 4 symbolic'),
        dict(name='C04.twin', fn='rename_binding_twin', shards=[['k == 5', 'len(A) == 3 and len(B) == 3 and len(C) == 3']],
             timeout=t, expect='refuted', bounds='reachability twin: some name is renamed'),
    ]
