"""C03 - renaming preserves which binding every name refers to.  DESIGN.md section C03."""
from harness.renamekern import *   # noqa: F401,F403
from harness import renamekern
from vf import skeletons

META = {
    'bounds': 'scope skeletons (vf/skeletons.py TEMPLATES: %d programs of <= 3 nested scopes covering every binding form) with three '
              'identifier holes filled by symbolic strings of one fixed length (quick: 3; thorough: 1 and 3) over all of Unicode; '
              'options rename_locals/rename_globals/hoist_literals from 4 combinations; builtin namespace = 13 representative names' % len(skeletons.TEMPLATES),
    'outside': 'skeletons deeper than 3 scopes or with more than ~15 identifier occurrences; more than 3 simultaneously symbolic names; '
               'type parameter scopes (3.12); the real 158-name builtin namespace (replay uses it)',
    'stubs': ['ast.parse -> the pre-built tree; unparse -> captures the transformed tree (vf.stubs.pipeline)',
              'builtins in rename/util, bind_names, resolve_names, name_generator -> 13-name module (vf.stubs.builtins_stubbed)',
              'hash in rename_literals -> constant', 'repr in rename_literals -> quote+text+quote length model (cost model only)', 'ast.AST.__hash__ -> creation index (deterministic set order)'],
    'assumptions': ['R-scope (vf/rscope.py) implements CPython scoping: validated against symtable on the stdlib and the repo',
                    'the input program is compilable per R-scope (checked before the pipeline runs)'],
}


def selftest(tier):
    return renamekern_selftest(tier)


def obligations(tier, seed):
    t = 240 if tier == 'quick' else 1200
    return [
        dict(name='C03.rename_binding', fn='rename_binding', shards=plan(skeletons.TEMPLATES, tier, seed, 99, quick_all_lengths=True, pin_c_quick=True), timeout=t,
             bounds='see META; quick = every skeleton with name lengths 1 and 3 (option combination rotates with the seed)', public_replay='public_rename_binding'),
        dict(name='C03.rename_binding.twin', fn='rename_binding_twin', shards=[['k == 1', 'len(A) == 3 and len(B) == 3 and len(C) == 3']],
             timeout=t, expect='refuted', bounds='reachability twin'),
    ]
