"""C09 - dynamic name access freezes every name in the module.  DESIGN.md section C09."""
from harness.renamekern import *   # noqa: F401,F403
from harness import C03 as _c03
from vf import skeletons

META = dict(_c03.META)
META['bounds'] = 'taint skeletons (vf/skeletons.py TAINT_TEMPLATES: %d programs with exec/eval/locals/globals/vars as call, bare ' \
    'reference, alias source, in defaults/lambdas/comprehensions/class bodies, a global declaration, and a star import) with three ' \
    'symbolic identifier holes of one fixed length (a hole may take the trigger\'s name and shadow it: then the property does ' \
    'not apply, decided by R-scope); all 8 combinations of rename_locals/rename_globals/hoist_literals in thorough' % len(skeletons.TAINT_TEMPLATES)


def selftest(tier):
    return renamekern_selftest(tier)


def obligations(tier, seed):
    t = 240 if tier == 'quick' else 1200
    shards = plan(skeletons.TAINT_TEMPLATES, tier, seed, len(skeletons.TAINT_TEMPLATES),
                  combos_quick=[(True, False, True), (True, True, True), (False, False, True)])
    return [
        dict(name='C09.taint_freezes', fn='taint_freezes', shards=shards, timeout=t, bounds='see META',
             public_replay='public_taint_freezes'),
        dict(name='C09.taint.twin', fn='taint_twin', shards=[['k == 0', 'len(A) == 3 and len(B) == 3 and len(C) == 3']], timeout=t,
             expect='refuted', bounds='reachability twin: some instantiation is tainted'),
    ]
