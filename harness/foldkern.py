"""C07 kernels: constant folding never changes a value, its type, or an error."""
import ast
import math
import operator

from python_minifier.ast_annotation import add_parent
from python_minifier.rename import add_namespace
from vf.stubs import untraced, bits_index, decode_index, mod, patched

OPS = [(ast.Add, operator.add, '+'), (ast.Sub, operator.sub, '-'), (ast.Mult, operator.mul, '*'), (ast.FloorDiv, operator.floordiv, '//'),
       (ast.Mod, operator.mod, '%'), (ast.LShift, operator.lshift, '<<'), (ast.RShift, operator.rshift, '>>'), (ast.BitOr, operator.or_, '|'),
       (ast.BitXor, operator.xor, '^'), (ast.BitAnd, operator.and_, '&'), (ast.Div, operator.truediv, '/'), (ast.Pow, operator.pow, '**'),
       (ast.MatMult, operator.matmul, '@')]
N_OPS = len(OPS)


def prep(module):
    ast.fix_missing_locations(module)
    add_parent(module)
    add_namespace(module)
    return module


# ---------------------------------------------------------------------------------------------------------------
# (1) symbolic integers: the decision logic of visit_BinOp with printing/evaluation replaced by structural models
class ExprText(object):
    """Stands for "the printed text of this node": evaluation is structural, length follows a digit-count model."""

    def __init__(self, node):
        self.node = node

    def __len__(self):
        return text_len(self.node)


def digits(n):
    # number of decimal digits of a non-negative int below 10**13 (comparisons only: no int -> text conversion)
    d = 1
    p = 10
    while d < 13 and n >= p:
        d += 1
        p *= 10
    return d


def text_len(node):
    if isinstance(node, ast.Constant):
        v = node.value
        if v is True:
            return 4
        if v is False:
            return 5
        return digits(v)
    if isinstance(node, ast.UnaryOp):
        return 1 + text_len(node.operand)
    if isinstance(node, ast.BinOp):
        for cls, fn, sym in OPS:
            if isinstance(node.op, cls):
                return text_len(node.left) + len(sym) + text_len(node.right)
    raise RuntimeError('unexpected node in text model')


def struct_eval(node):
    if isinstance(node, ast.Constant):
        return node.value
    if isinstance(node, ast.UnaryOp) and isinstance(node.op, ast.USub):
        return -struct_eval(node.operand)
    if isinstance(node, ast.BinOp):
        for cls, fn, sym in OPS:
            if isinstance(node.op, cls):
                return fn(struct_eval(node.left), struct_eval(node.right))
    raise RuntimeError('unexpected node in structural evaluator')


def _sign_repr(v):
    # repr() in constant_folding is only used for its leading '-'
    if isinstance(v, bool):
        return 'True' if v else 'False'
    return '-1' if v < 0 else '1'


def fold_int(a: int, b: int, op: int, a_bool: bool, b_bool: bool) -> bool:
    """
    pre: 0 <= op < N_OPS
    pre: 0 <= a < 1000000 and 0 <= b < 1000000
    pre: op not in (5, 6) or b <= 8
    pre: op != 11 or b <= 3
    pre: op not in (7, 8, 9) or (a < 16 and b < 16)
    post: _
    """
    # BinOp(Constant(a), op, Constant(b)) with symbolic non-negative ints (or the booleans a != 0 / b != 0): whenever
    # the real visit_BinOp returns a replacement, it denotes exactly the value and type of the original expression,
    # negative results are written as unary minus of a positive literal, and the replacement is shorter.
    cf = mod('python_minifier.transforms.constant_folding')
    va = (a != 0) if a_bool else a
    vb = (b != 0) if b_bool else b
    node = ast.BinOp(left=ast.Constant(value=va), op=OPS[op][0](), right=ast.Constant(value=vb))
    module = prep(ast.Module(body=[ast.Expr(value=node)], type_ignores=[]))

    def fake_parse(text, *a_, **k_):
        return ast.Expression(body=text.node)

    shim = type('AstShim', (), {})()
    for nm in dir(cf.ast):
        if not nm.startswith('__'):
            setattr(shim, nm, getattr(cf.ast, nm))
    shim.parse = fake_parse
    with patched(cf, 'unparse_expression', lambda n: ExprText(n)), patched(cf, 'safe_eval', lambda t: struct_eval(t.node)), \
            patched(cf, 'ast', shim), patched(cf, 'repr', _sign_repr), patched(cf, 'compare_ast', lambda l, r: None):
        out = cf.FoldConstants()(module)
    res = out.body[0].value
    if res is node:
        return True
    # a replacement was made
    try:
        want = OPS[op][1](va, vb)
    except Exception:  # noqa
        return False            # the original raises: it must have been left alone
    if isinstance(res, ast.UnaryOp):
        if not (isinstance(res.op, ast.USub) and isinstance(res.operand, ast.Constant)):
            return False
        if isinstance(res.operand.value, bool) or not (res.operand.value > 0):
            return False
        got = -res.operand.value
    elif isinstance(res, ast.Constant):
        got = res.value
        if not isinstance(got, bool) and got < 0:
            return False        # negative literal would not round-trip through the parser
    else:
        return False
    if type(got) is not type(want):
        return False
    if got != want:
        return False
    return text_len(res) < text_len(node)


def fold_int_twin(a: int, b: int) -> bool:
    """
    pre: 0 <= a < 1000 and 0 <= b < 1000
    post: _
    """
    # reachability: some sum is folded (must be refuted)
    cf = mod('python_minifier.transforms.constant_folding')
    node = ast.BinOp(left=ast.Constant(value=a), op=ast.Add(), right=ast.Constant(value=b))
    module = prep(ast.Module(body=[ast.Expr(value=node)], type_ignores=[]))
    shim = type('S', (), {})()
    for nm in dir(cf.ast):
        if not nm.startswith('__'):
            setattr(shim, nm, getattr(cf.ast, nm))
    shim.parse = lambda text, *a_, **k_: ast.Expression(body=text.node)
    with patched(cf, 'unparse_expression', lambda n: ExprText(n)), patched(cf, 'safe_eval', lambda t: struct_eval(t.node)), \
            patched(cf, 'ast', shim), patched(cf, 'repr', _sign_repr), patched(cf, 'compare_ast', lambda l, r: None):
        out = cf.FoldConstants()(module)
    return out.body[0].value is node


# ---------------------------------------------------------------------------------------------------------------
# (2) representative values of every literal type, real printer, real evaluation of the printed text
VALS = [0, 1, 2, 3, 10, 1024, 10 ** 16, True, False, 1.0, 8j, 0.0, 0.5, 1e16, 1e999, 2j, 1e16j, 100000j]
N_VALS = len(VALS)


def _variant(v, how):
    """The same number in another literal type (None if not expressible)."""
    if how == 0:
        return v
    if isinstance(v, complex):
        return None
    if how == 1:
        try:
            f = float(v)
        except OverflowError:
            return None
        return f if f == v and not isinstance(v, float) else None
    if how == 2:
        return bool(v) if v in (0, 1) and not isinstance(v, bool) else None
    if how == 3:
        return int(v) if isinstance(v, (bool, float)) and abs(v) < 1e15 and v == int(v) else None
    return None


def _outcome(text):
    """('value', type, repr) or ('raises', exception type) of closed arithmetic text."""
    try:
        v = eval(text, {'__builtins__': {}}, {})   # text is produced by this harness or by the printer from literal nodes only
    except Exception as e:  # noqa
        return ('raises', type(e).__name__)
    if isinstance(v, int) and not isinstance(v, bool):
        return ('value', 'int', format(v, 'x'))      # hexadecimal: decimal repr() refuses ints beyond 4300 digits
    return ('value', type(v).__name__, repr(v))


def _same(o1, o2):
    return o1 == o2


def _print_expr(node):
    from python_minifier.expression_printer import ExpressionPrinter
    return ExpressionPrinter()(node)


def _lit(v):
    return ast.Constant(value=v)


def fold_pairs(op: int, ia: int, ib: int, vc: int, vd: int) -> bool:
    """
    pre: 0 <= op < N_OPS
    pre: 0 <= ia < N_VALS and 0 <= ib < N_VALS
    pre: 0 <= vc <= 3 and 0 <= vd <= 3
    post: _
    """
    return untraced(_fold_pairs_impl, op, ia, ib, vc, vd)


def _fold_pairs_impl(op, ia, ib, vc, vd):
    # two expressions in one module whose operands are numerically equal but of different literal types
    # (1 / 1.0 / True): each folded result must denote exactly what its own expression evaluates to
    from python_minifier.transforms.constant_folding import FoldConstants
    a, b = VALS[ia], VALS[ib]
    c, d = _variant(a, vc), _variant(b, vd)
    if c is None or d is None:
        return True
    if op in (5, 6, 11):
        for x in (b, d):
            if isinstance(x, (float, complex)) or x > 64:
                return True
    e1 = ast.BinOp(left=_lit(a), op=OPS[op][0](), right=_lit(b))
    e2 = ast.BinOp(left=_lit(c), op=OPS[op][0](), right=_lit(d))
    t1 = _print_expr(ast.BinOp(left=_lit(a), op=OPS[op][0](), right=_lit(b)))
    t2 = _print_expr(ast.BinOp(left=_lit(c), op=OPS[op][0](), right=_lit(d)))
    module = prep(ast.Module(body=[ast.Assign(targets=[ast.Name(id='x', ctx=ast.Store())], value=e1),
                                   ast.Assign(targets=[ast.Name(id='y', ctx=ast.Store())], value=e2)], type_ignores=[]))
    out = FoldConstants()(module)
    r1 = _print_expr(out.body[0].value)
    r2 = _print_expr(out.body[1].value)
    if not _same(_outcome(t1), _outcome(r1)) or not _same(_outcome(t2), _outcome(r2)):
        return False
    return len(r1) <= len(t1) and len(r2) <= len(t2)


CONTEXTS = ['plain', 'neg', 'attr_real', 'pow_base', 'pow_exp', 'sub_right', 'mul_left', 'index', 'call_arg', 'compare', 'ifexp', 'fstring',
            'invert', 'div_right', 'not']
N_CTX = len(CONTEXTS)


def _in_context(ctx, e):
    c = CONTEXTS[ctx]
    if c == 'plain':
        return e
    if c == 'neg':
        return ast.UnaryOp(op=ast.USub(), operand=e)
    if c == 'invert':
        return ast.UnaryOp(op=ast.Invert(), operand=e)
    if c == 'not':
        return ast.UnaryOp(op=ast.Not(), operand=e)
    if c == 'attr_real':
        return ast.Attribute(value=e, attr='real', ctx=ast.Load())
    if c == 'pow_base':
        return ast.BinOp(left=e, op=ast.Pow(), right=_lit(2))
    if c == 'pow_exp':
        return ast.BinOp(left=_lit(2), op=ast.Pow(), right=e)
    if c == 'sub_right':
        return ast.BinOp(left=_lit(100), op=ast.Sub(), right=e)
    if c == 'div_right':
        return ast.BinOp(left=_lit(100), op=ast.Div(), right=e)
    if c == 'mul_left':
        return ast.BinOp(left=e, op=ast.Mult(), right=_lit(3))
    if c == 'index':
        return ast.Subscript(value=ast.Tuple(elts=[_lit(10), _lit(20), _lit(30), _lit(40)], ctx=ast.Load()), slice=e, ctx=ast.Load())
    if c == 'call_arg':
        return ast.Compare(left=e, ops=[ast.Eq()], comparators=[e])     # closed stand-in for "argument position"
    if c == 'compare':
        return ast.Compare(left=_lit(1), ops=[ast.Lt(), ast.LtE()], comparators=[e, _lit(5)])
    if c == 'ifexp':
        return ast.IfExp(test=e, body=_lit(1), orelse=_lit(2))
    return ast.JoinedStr(values=[ast.FormattedValue(value=e, conversion=-1, format_spec=None)])


def fold_nested(op1: int, op2: int, ia: int, ib: int, ic: int, ctx: int, right_nested: bool) -> bool:
    """
    pre: 0 <= op1 < N_OPS and 0 <= op2 < N_OPS
    pre: 0 <= ia < N_VALS and 0 <= ib < N_VALS and 0 <= ic < N_VALS
    pre: 0 <= ctx < N_CTX
    post: _
    """
    return untraced(_fold_nested_impl, op1, op2, ia, ib, ic, ctx, right_nested)


def _fold_nested_impl(op1, op2, ia, ib, ic, ctx, right_nested):
    # (A op1 B) op2 C  /  A op2 (B op1 C) inside a syntactic context: the whole closed expression evaluates identically
    # (type, value, sign of zero, exception) before and after folding, through the real printer
    import copy
    from python_minifier.transforms.constant_folding import FoldConstants
    a, b, c = VALS[ia], VALS[ib], VALS[ic]
    for o, x in ((op1, b if not right_nested else c), (op2, c if not right_nested else None)):
        if o in (5, 6, 11) and x is not None and (isinstance(x, (float, complex)) or x > 64):
            return True
    if op2 in (5, 6, 11) or op1 == 11:
        # shifts/powers by a computed amount can be astronomically large: bound them
        if right_nested or op1 == 11:
            return True
    inner = ast.BinOp(left=_lit(a), op=OPS[op1][0](), right=_lit(b)) if not right_nested else ast.BinOp(left=_lit(b), op=OPS[op1][0](), right=_lit(c))
    e = ast.BinOp(left=inner, op=OPS[op2][0](), right=_lit(c)) if not right_nested else ast.BinOp(left=_lit(a), op=OPS[op2][0](), right=inner)
    whole = _in_context(ctx, e)
    before = _print_expr(copy.deepcopy(whole))
    module = prep(ast.Module(body=[ast.Expr(value=whole)], type_ignores=[]))
    out = FoldConstants()(module)
    after = _print_expr(out.body[0].value)
    if not _same(_outcome(before), _outcome(after)):
        return False
    return len(after) <= len(before)


def number_print(iv: int, neg: bool, ctx: int) -> bool:
    """
    pre: 0 <= iv < N_NUMS
    pre: 0 <= ctx < N_CTX
    post: _
    """
    return untraced(_number_print_impl, iv, neg, ctx)


def _number_print_impl(iv, neg, ctx):
    # C02d/C07: a numeric constant (incl. negative zero, infinities, complex with signed zero parts) printed by the real
    # printer in any context evaluates to the identical value
    v = NUMS[iv]
    node = _lit(v)
    if neg:
        node = ast.UnaryOp(op=ast.USub(), operand=node)
    whole = _in_context(ctx, node)
    text = _print_expr(whole)
    try:
        back = ast.parse(text, mode='eval').body
    except SyntaxError:
        return False
    return ast.dump(back) == ast.dump(ast.parse(ast.unparse(ast.fix_missing_locations(ast.Expression(body=whole))), mode='eval').body)


NUMS = [0, 1, 9, 10, 15, 16, 255, 256, 4095, 10 ** 6, 10 ** 12, 2 ** 64, 0.0, 0.5, 1.0, 1.5, 10.0, 100.0, 1000.0, 1e5, 1e15, 1e16, 1e17, 1.5e300,
        1e-4, 1e-5, 1.5e-7, 0.1, 123456.789, 1e999, 5e-324, 1.7976931348623157e308, 0j, 1j, 1.5j, 10j, 1e16j, 1e999j, 0.5j, 1e-5j]
N_NUMS = len(NUMS)


VARIANT_PAIRS = [(c, d) for c in range(4) for d in range(4)]


def fold_pairs_b(b0: bool, b1: bool, b2: bool, b3: bool, b4: bool, b5: bool, b6: bool, b7: bool, b8: bool, b9: bool, b10: bool, b11: bool, b12: bool, b13: bool, b14: bool, b15: bool, b16: bool) -> bool:
    """
    post: _
    """
    # index bits: b0-b3 operator, then operand a, operand b, type-variant pair (mixed radix)
    return untraced(_fold_pairs_b_impl, bits_index(b0, b1, b2, b3, b4, b5, b6, b7, b8, b9, b10, b11, b12, b13, b14, b15, b16))


def _fold_pairs_b_impl(idx):
    op = idx & 15
    if op >= N_OPS:
        return True
    d = decode_index(idx >> 4, [N_VALS, N_VALS, len(VARIANT_PAIRS)])
    if d is None:
        return True
    vc, vd = VARIANT_PAIRS[d[2]]
    return _fold_pairs_impl(op, d[0], d[1], vc, vd)


NESTED_SEL = [1, 3, 4, 7, 9, 12, 14, 15]     # 8 of the representative literals: 1 3 10 True 1.0 0.5 1e999 2j


def fold_nested_b(b0: bool, b1: bool, b2: bool, b3: bool, b4: bool, b5: bool, b6: bool, b7: bool, b8: bool, b9: bool, b10: bool, b11: bool, b12: bool, b13: bool, b14: bool, b15: bool, b16: bool, b17: bool, b18: bool, b19: bool, b20: bool, b21: bool) -> bool:
    """
    post: _
    """
    # index bits: b0-b3 outer operator, b4 right-nested, b5-b8 context, then inner operator and three operands (8 each)
    return untraced(_fold_nested_b_impl, bits_index(b0, b1, b2, b3, b4, b5, b6, b7, b8, b9, b10, b11, b12, b13, b14, b15, b16, b17, b18, b19, b20, b21))


def _fold_nested_b_impl(idx):
    op2 = idx & 15
    rn = bool((idx >> 4) & 1)
    ctx = (idx >> 5) & 15
    if op2 >= N_OPS or ctx >= N_CTX:
        return True
    d = decode_index(idx >> 9, [N_OPS, 8, 8, 8])
    if d is None:
        return True
    return _fold_nested_impl(d[0], op2, NESTED_SEL[d[1]], NESTED_SEL[d[2]], NESTED_SEL[d[3]], ctx, rn)


def number_print_b(b0: bool, b1: bool, b2: bool, b3: bool, b4: bool, b5: bool, b6: bool, b7: bool, b8: bool, b9: bool, b10: bool) -> bool:
    """
    post: _
    """
    # index bits: b0 sign, then constant x context (mixed radix)
    return untraced(_number_print_b_impl, bits_index(b0, b1, b2, b3, b4, b5, b6, b7, b8, b9, b10))


def _number_print_b_impl(idx):
    d = decode_index(idx >> 1, [N_NUMS, N_CTX])
    if d is None:
        return True
    return _number_print_impl(d[0], bool(idx & 1), d[1])
