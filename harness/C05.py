"""C05 - each option performs only its documented rewrite, only where it is valid.  DESIGN.md section C05."""
from harness.transkern import *   # noqa: F401,F403
from harness import transkern

META = {
    'bounds': 'C05a kernels: every suite of <= 3 statements from %d statement kinds under %d parent kinds for the four suite '
              'transforms; RemoveDebug on 5 test shapes x symbolic left identifier |id| <= 9 x 5 operators x 5 constants x 3 else '
              'forms; RemoveObject with two symbolic base names; RemoveAnnotations with symbolic decorator/base names and the four '
              'option booleans; CombineImports on <= 4 statements with symbolic module names and levels; exception brackets after '
              'the real bind/resolve with a symbolic exception name, 7 rebinding forms, 5 positions; explicit return None; '
              'positional-only markers; docstrings vs a symbolic __doc__ use.  C05b gating: all 2^14 option vectors x tainted' % (transkern.N_STMT, transkern.N_PARENT),
    'outside': 'larger neighbourhoods; composition of several rewrites on one tree beyond what the gating obligation shows '
               '(each stage runs iff its option is on, in order); "bisimilar compiled code" is replaced by structural equality '
               'with a reference implementation of the documented rewrite',
    'stubs': ['builtins in the renamer -> 13-name module (exception kernel: ValueError and KeyError are the builtin exceptions)',
              'ast.parse / unparse -> tree in, tree out (gating and exception kernels)',
              'every transformer class/function in python_minifier/__init__ -> recorder (gating obligation only)'],
    'assumptions': ['the reference rewrites in harness/transkern.py are a faithful reading of docs/source/transforms/*.rst',
                    'for "only"-style rules (exception brackets, import merging) doing less than documented is accepted'],
}


def obligations(tier, seed):
    t = 240 if tier == 'quick' else 1800
    obs = []
    # every structure parameter of the suite kernel comes from 19 booleans: b0-b1 transform, b2-b3 list length n,
    # b4.. parent kind x statement kinds (17 x 10^n)
    def bit(i, v):
        return 'b%d == %s' % (i, bool(v))
    sh = []
    for w in range(4):
        for n in ((0, 1, 2) if tier == 'quick' else (0, 1, 2, 3)):
            fixed = [bit(0, w & 1), bit(1, w & 2), bit(2, n & 1), bit(3, n & 2)]
            if n <= 1:
                sh.append(fixed + [bit(i, 0) for i in range(12, 19)])      # 17 x 10 < 2^8
            elif n == 2:
                sh.append(fixed + [bit(i, 0) for i in range(15, 19)])      # 17 x 100 < 2^11
            else:
                sh += [fixed + [bit(18, a), bit(17, b)] for a in (0, 1) for b in (0, 1)]   # 17 x 1000 < 2^15
    obs.append(dict(name='C05a.suite_hooks', fn='suite_kernel_b', timeout=t, shards=sh,
                    bounds='4 transforms x %d parents x every statement list of length <= %d over %d statement kinds' % (
                        transkern.N_PARENT, 2 if tier == 'quick' else 3, transkern.N_STMT)))
    obs.append(dict(name='C05a.remove_debug', fn='debug_kernel', timeout=t, shards=[['shape == %d' % s, 'else_kind == %d' % e] for s in range(5) for e in range(3)],
                    bounds='see META'))
    obs.append(dict(name='C05a.remove_object', fn='object_kernel', timeout=t, shards=[['shape == %d' % s] for s in range(5)], bounds='see META'))
    obs.append(dict(name='C05a.return_none', fn='return_none_kernel', timeout=t, shards=[[]], bounds='see META'))
    obs.append(dict(name='C05a.combine_imports', fn='imports_kernel', timeout=t, shards=[['n == %d' % i, 'lv0 == %d' % l] for i in range(4 if tier == 'quick' else 5) for l in range(2)],
                    bounds='<= 4 statements, module names |m| <= 3 symbolic, levels 0-2 (lv0 in {0,1} x lv1 in 0..2)'))
    obs.append(dict(name='C05a.annotations', fn='annotations_kernel', timeout=t,
                    shards=[['where == %d' % w, 'dec_kind == %d' % d] for w in range(3) for d in (range(5) if w == 2 else [0])], bounds='see META'))
    obs.append(dict(name='C05a.posargs', fn='posargs_kernel', timeout=t, shards=[[]], bounds='0-2 positional-only x 0-2 normal parameters, def and lambda'))
    obs.append(dict(name='C05a.exception_brackets', fn='exception_brackets_kernel', timeout=t,
                    shards=[['pos == %d' % p, 'rebind == %d' % r] for p in range(5) for r in range(7) if tier == 'thorough' or p < 2 or r == 0], bounds='see META'))
    obs.append(dict(name='C05a.exception_brackets.twin', fn='exception_brackets_twin', timeout=t, shards=[[]], expect='refuted', bounds='reachability twin'))
    obs.append(dict(name='C05a.literal_statements_doc', fn='literal_doc_kernel', timeout=t, shards=[[]], bounds='symbolic name |nm| <= 8 used as name or attribute, in a function or at module level'))
    if tier == 'quick':
        gs = [['o_lit == %s' % a, 'o_imp == %s' % b, 'o_ann == %s' % c, 'o_obj == True', 'o_ret == True', 'o_pos == %s' % a, 'o_fold == %s' % b, 'o_ass == %s' % c, 'o_dbg == %s' % (not a)]
              for a in (True, False) for b in (True, False) for c in (True, False)]
    else:
        gs = [['o_lit == %s' % a, 'o_imp == %s' % b, 'o_ann == %s' % c, 'o_pass == %s' % d] for a in (True, False) for b in (True, False)
              for c in (True, False) for d in (True, False)]
    obs.append(dict(name='C05b.gating', fn='gating', timeout=t, shards=gs,
                    bounds='quick: 8 shards x 2^6 option vectors (the other options tied to the shard); thorough: all 2^15 vectors in 16 shards'))
    return obs
