"""Bounded grammar G (DESIGN.md 2.3): expression slots x child kinds x grand-child kinds, statement templates.

Templates are source text with the marker identifiers EXPR / EXPR2; a tree is built by parsing the template and replacing
the marker Name nodes with the parsed child expression.  Only parser-producible trees are admitted: T is used iff
ast.dump(ast.parse(ast.unparse(T))) == ast.dump(T) (CPython's own unparser is the trusted generator).
All leaves are concrete, so on every CrossHair path the real parser and compiler serve as oracle.
"""
import ast
import copy

# --- expression kinds (children / grand-children) --------------------------------------------------------------
CHILD = [
    'a', '1', '1.5', '2j', '"s"', 'b"y"', 'None', 'True', '...', '(a, b)', '(a,)', '()', '[a, b]', '{a, b}', '{a: b}', '{**a, b: c}',
    'a + b', 'a - b', 'a * b', 'a / b', 'a // b', 'a % b', 'a ** b', 'a @ b', 'a << b', 'a >> b', 'a | b', 'a ^ b', 'a & b',
    '-a', '+a', '~a', 'not a', 'a and b', 'a or b', 'a < b', 'a < b <= c', 'a in b', 'a not in b', 'a is not b', 'a == b != c',
    'a if b else c', 'lambda: a', 'lambda x, /, y=1, *z, k, m=2, **w: a', 'f(a)', 'f(*a, b=c, **d)', 'f(x for x in a)', 'a.b', 'a[b]',
    'a[b:c]', 'a[b:c:d]', 'a[::]', 'a[b, c]', 'a[b:c, d]', 'a[*b]', '[*a, b]', '[x for x in a]', '{x for x in a if x}',
    '{x: y for x, y in a}', '(x for x in a)', '[x async for x in a]', 'await a', '(yield)', '(yield a)', '(yield from a)', '(x := a)',
    'f"t"', 'f"{a}"', 'f"{a!r:>{b}}"', 'f"{a=}"', 'f"{a}{{}}{b:x}"', 'f"{f\'{a}\'}"', '-1', '- -1', '-1.5', '2 ** -1', '(-1) ** 2',
    '18446744073709551615', '1e999', '1e-07', '"a\'b"', '"\\n\\\\"', '"""a\nb"""', 'b"\\x00\\xff"', '"\\x00"', '"é\U0001F600"', 'a.b.c(d)[e]',
    'a if b"y" else c', 'a or b"y"', 'not b"y"', 'a in b"y"', 'a is not b"y"', 'a or f"{b}"', 'not f"{a}"', 'a if f"{b}" else c', 'lambda: b"y"', 'a and "s"',
    '{a: b} if c else d', '{a} if b else c', '{a: b}[c]', '{a: b} or c', '{a for a in b} if c else d', '{a: b}.c', '{a: b} < c',
    '[a for b in c for d in e if f if g]', 'a if b else c if d else e', '(a if b else c) if d else e', 'lambda: (yield)', '(a, *b)',
    '1 .real', '1.0.real', 'a[b](c).d', '(a := b, c)', 'f(a := b)', '{*a}', '{**a}', 'a <= b', 'a > b', 'a >= b', 'a != b', 'a is b',
]
N_CHILD = len(CHILD)
# the child kinds that need special treatment somewhere (tuples, yields, walrus, starred, lambda, conditional, comparison,
# unary minus, f-string, bytes with escapes): the quick tier crosses every slot / statement template with these 32
INTERESTING = [CHILD.index(t) for t in [
    'a', '1', '(a, b)', '(a,)', '[a, b]', 'a + b', 'a ** b', '-a', 'not a', 'a and b', 'a or b', 'a < b', 'a if b else c', 'lambda: a', 'f(a)',
    'a.b', 'a[b]', '[*a, b]', '(x for x in a)', 'await a', '(yield)', '(yield a)', '(yield from a)', '(x := a)', 'f"{a}"', '-1', '1.5', '"s"',
    '(a, *b)', 'a < b <= c', '2 ** -1', 'b"\\x00\\xff"']]
# position 31 alternates (by the statement / slot index) between the escaped bytes literal and keyword-followed-by-bytes
INTERESTING_ALT = CHILD.index('a if b"y" else c')
INTERESTING_ALT2 = CHILD.index('{a: b} if c else d')

# --- expression slots --------------------------------------------------------------------------------------------
SLOT = [
    'EXPR', 'EXPR + a', 'a + EXPR', 'EXPR - a', 'a - EXPR', 'EXPR * a', 'a * EXPR', 'EXPR / a', 'a / EXPR', 'EXPR // a', 'a // EXPR', 'EXPR % a',
    'a % EXPR', 'EXPR ** a', 'a ** EXPR', 'EXPR @ a', 'a @ EXPR', 'EXPR << a', 'a << EXPR', 'EXPR >> a', 'a >> EXPR', 'EXPR | a', 'a | EXPR',
    'EXPR ^ a', 'a ^ EXPR', 'EXPR & a', 'a & EXPR', '-EXPR', '+EXPR', '~EXPR', 'not EXPR', 'EXPR and a', 'a and EXPR', 'EXPR or a', 'a or EXPR',
    'EXPR < a', 'a < EXPR', 'a < EXPR < b', 'EXPR in a', 'a not in EXPR', 'EXPR is a', 'a is not EXPR', 'EXPR if a else b', 'a if EXPR else b',
    'a if b else EXPR', 'lambda: EXPR', 'lambda x=EXPR: x', 'lambda *, k=EXPR: k', 'EXPR(a)', 'f(EXPR)', 'f(a, EXPR)', 'f(k=EXPR)', 'f(*EXPR)',
    'f(**EXPR)', 'f(EXPR, *a, k=b)', 'EXPR.attr', 'EXPR[a]', 'a[EXPR]', 'a[EXPR:b]', 'a[b:EXPR]', 'a[b:c:EXPR]', 'a[EXPR, b]', 'a[b, EXPR:c]',
    '[EXPR]', '[a, EXPR]', '(EXPR,)', '(a, EXPR)', '{EXPR}', '{EXPR: a}', '{a: EXPR}', '{**EXPR}', '[*EXPR]', '(*EXPR, a)', '{*EXPR}',
    '[EXPR for x in a]', '[x for x in EXPR]', '[x for x in a if EXPR]', '[x for x in a for y in EXPR]', '[x for x in a if b if EXPR]',
    '{EXPR for x in a}', '{EXPR: b for x in a}', '{b: EXPR for x in a}', '(EXPR for x in a)', 'f(EXPR for x in a)', '(x for x in EXPR)',
    '[x async for x in EXPR]', 'await EXPR', '(yield EXPR)', '(yield from EXPR)', '(x := EXPR)', 'f"{EXPR}"', 'f"{EXPR!r}"', 'f"{EXPR:>10}"',
    'f"{a:{EXPR}}"', 'f"x{EXPR}y{b}"', 'f"{EXPR=}"', 'EXPR if EXPR2 else EXPR', 'EXPR2 + EXPR * EXPR2', '(EXPR2 + EXPR) * EXPR2', 'EXPR ** EXPR2 ** EXPR',
    '(EXPR ** EXPR2) ** EXPR', '-EXPR ** EXPR2', '(-EXPR) ** EXPR2', 'not EXPR == EXPR2', 'EXPR < EXPR2 < EXPR', '(EXPR < EXPR2) < EXPR',
    'EXPR and EXPR2 or EXPR', 'EXPR and (EXPR2 or EXPR)', 'EXPR, EXPR2', '[EXPR][EXPR2]', 'EXPR(EXPR2)(EXPR)', 'await EXPR ** EXPR2', '(await EXPR) ** EXPR2',
]
N_SLOT = len(SLOT)

# --- statement templates (EXPR marks an expression slot) ---------------------------------------------------------
STMT = [
    'EXPR', 'x = EXPR', 'x = y = EXPR', 'x, y = EXPR', '[x, *y] = EXPR', 'x.a = EXPR', 'x[EXPR] = 1', 'x += EXPR', 'x **= EXPR', 'x //= EXPR',
    'x @= EXPR', 'x >>= EXPR', 'x: int = EXPR', 'x: EXPR', '(x): int = EXPR', 'x.a: EXPR = 1', 'del x[EXPR]', 'del x, y.a', 'return EXPR',
    'return', 'return EXPR, EXPR2', 'raise', 'raise EXPR', 'raise EXPR from EXPR2', 'assert EXPR', 'assert EXPR, EXPR2', 'pass', 'break_',
    'import a', 'import a.b as c, d', 'from a import b', 'from .a import b as c, d', 'from .. import a', 'from a import *', 'global g1, g2',
    'nonlocal_', 'if EXPR:\n    pass', 'if EXPR:\n    x\nelse:\n    y', 'if EXPR:\n    x\nelif EXPR2:\n    y\nelse:\n    z',
    'if a:\n    if EXPR:\n        x\n    y\nelse:\n    z', 'for x in EXPR:\n    pass', 'for x, y in EXPR:\n    pass\nelse:\n    z',
    'for x in EXPR, EXPR2:\n    pass', 'for [x, *y] in EXPR:\n    break', 'while EXPR:\n    continue', 'while EXPR:\n    x\nelse:\n    y',
    'with EXPR:\n    pass', 'with EXPR as x:\n    pass', 'with EXPR as x, EXPR2 as (y, z):\n    pass', 'with (EXPR, EXPR2):\n    pass',
    'with (EXPR as x, EXPR2):\n    pass', 'try:\n    EXPR\nexcept:\n    pass', 'try:\n    x\nexcept EXPR:\n    y',
    'try:\n    x\nexcept EXPR as e:\n    y\nexcept (A, B):\n    z\nelse:\n    w\nfinally:\n    v', 'try:\n    x\nfinally:\n    EXPR',
    'try:\n    x\nexcept* EXPR:\n    y', 'try:\n    x\nexcept* EXPR as e:\n    y\nelse:\n    z', 'def g(a, b=EXPR):\n    pass',
    'def g(a, /, b, *c, d=EXPR, **e) -> EXPR2:\n    return a', 'def g(a: EXPR, *b: int, c: str = EXPR2, **d: float):\n    pass',
    '@EXPR\ndef g():\n    pass', '@EXPR\n@EXPR2\nclass K:\n    pass', 'class K(EXPR):\n    pass', 'class K(A, metaclass=EXPR):\n    x = 1',
    'class K(*EXPR, **EXPR2):\n    pass', 'class K:\n    """doc"""\n    def m(self):\n        return EXPR', 'async_def', 'async_for', 'async_with',
    'def g():\n    yield EXPR', 'def g():\n    x = yield EXPR', 'def g():\n    x = yield from EXPR', 'def g():\n    yield', 'def g():\n    return (yield EXPR)',
    'def g():\n    x = (yield EXPR), EXPR2', 'def g():\n    await_', 'lambda_stmt', 'match EXPR:\n    case 1:\n        pass',
    'match EXPR:\n    case [a, b, *c]:\n        pass\n    case {"k": v, **r}:\n        pass\n    case K(a, b=c):\n        pass',
    'match EXPR, EXPR2:\n    case (1 | 2) as x if EXPR:\n        pass\n    case [a] | [a, _]:\n        pass\n    case _:\n        pass',
    'match x:\n    case -1 | 1.5 | 2j | "s" | b"b" | None | True:\n        pass\n    case A.b | A.b.c:\n        pass\n    case []:\n        pass\n    case [a]:\n        pass\n    case (a, b):\n        pass',
    'match x:\n    case {}:\n        pass\n    case {1: a, "k": [b, *_]}:\n        pass\n    case K():\n        pass\n    case K(x=1, y=K2(z)):\n        pass\n    case [*_, last]:\n        pass\n    case ((a as b) as c):\n        pass',
    'match x:\n    case 1 + 2j | -1 - 2j:\n        pass', 'type_alias', 'generic_def', 'generic_class', '"""doc"""\nx = EXPR', 'x = EXPR; y = EXPR2\nz = 1',
    'def g():\n    global q\n    q = EXPR', 'def g():\n    q = 1\n    def h():\n        nonlocal q\n        q = EXPR\n    return h', 'x = [EXPR\n     for y in z]',
    'if EXPR: x; y\nelse: z', 'while a:\n    if EXPR:\n        break\n    else:\n        continue', 'for x in a:\n    try:\n        EXPR\n    finally:\n        pass',
    'def g(*, a): pass\ndef h(a, /): pass\ndef i(*a): pass\ndef j(**a): pass\ndef k(a=1, *, b=2): pass',
]
_SPECIAL = {
    'break_': 'while x:\n    break',
    'nonlocal_': 'def g():\n    q = 1\n    def h():\n        nonlocal q\n    return h',
    'async_def': 'async def g():\n    await EXPR\n    return [x async for x in EXPR2]',
    'async_for': 'async def g():\n    async for x in EXPR:\n        pass\n    else:\n        y',
    'async_with': 'async def g():\n    async with EXPR as x, EXPR2:\n        pass',
    'def g():\n    await_': 'async def g():\n    x = await EXPR\n    await EXPR2',
    'lambda_stmt': 'f = lambda a, b=EXPR, *c, d, **e: EXPR2',
    'type_alias': 'type X = EXPR\ntype Y[T] = EXPR2',
    'generic_def': 'def g[T, *Ts, **P](a: T) -> T:\n    return EXPR',
    'generic_class': 'class K[T: int, U: (str, bytes)](EXPR):\n    pass',
}
STMT = [_SPECIAL.get(s, s) for s in STMT]
N_STMT = len(STMT)


import re as _re

_MARK = _re.compile(r'EXPR2|EXPR')


def _subst_text(template, child, child2):
    """Source text of the template with the markers replaced by the parenthesised child text.  Parentheses never change
    the tree of an expression (they do not appear in the AST) except that they make `with ((a, b)):` a single tuple
    item - which is exactly the tree a user can write."""
    def rep(m):
        t = child2 if m.group(0) == 'EXPR2' else child
        # a starred marker position (*EXPR) and f-string fields take the parenthesised text as well
        return '(' + t + ')' if not (t.startswith('(') and t.endswith(')') and _balanced(t)) else t
    return _MARK.sub(rep, template)


def _balanced(t):
    depth = 0
    for i, ch in enumerate(t):
        if ch == '(':
            depth += 1
        elif ch == ')':
            depth -= 1
            if depth == 0 and i != len(t) - 1:
                return False
    return depth == 0


def _needs(node):
    has_await = has_yield_from = has_yield = has_async_comp = False
    for n in ast.walk(node):
        if isinstance(n, ast.Await):
            has_await = True
        if isinstance(n, ast.YieldFrom):
            has_yield_from = True
        if isinstance(n, ast.Yield):
            has_yield = True
        if isinstance(n, (ast.ListComp, ast.SetComp, ast.DictComp, ast.GeneratorExp)) and any(g.is_async for g in n.generators):
            has_async_comp = True
    return has_await or has_async_comp, has_yield_from, has_yield


def expr_tree(p, c, g=None):
    """(tree, text) for `x = <SLOT[p] with CHILD[c] (with CHILD[g] in place of its first `a`)>` inside a function, built as
    source text and parsed by CPython (the parser is the producibility witness); None if the text does not parse."""
    child = CHILD[c]
    if g is not None:
        m = _re.search(r'(?<![A-Za-z0-9_"\'.])a(?![A-Za-z0-9_"\'])', child)
        if m is None:
            return None
        child = child[:m.start()] + '(' + CHILD[g] + ')' + child[m.end():]
    expr = _subst_text(SLOT[p], child, 'q')
    try:
        e = ast.parse(expr, mode='eval').body
    except (SyntaxError, ValueError):
        return None
    need_async, has_yf, has_y = _needs(e)
    if need_async and has_yf:
        return None
    text = ('async def f():\n    x = ' if need_async else 'def f():\n    x = ') + expr + '\n'
    return admitted(text)


def stmt_tree(s, c, c2=0):
    return admitted(_subst_text(STMT[s], CHILD[c], CHILD[c2]) + '\n')


def admitted(text):
    """(tree, text) if CPython parses the text, else None."""
    try:
        return ast.parse(text), text
    except (SyntaxError, ValueError):
        return None


def compiles(text):
    try:
        compile(text, 'grammar', 'exec', dont_inherit=True)
        return True
    except (SyntaxError, ValueError):
        return False
