"""C15 - in-place minification touches only Python files and never corrupts one.  DESIGN.md section C15.

Real code executed symbolically: python_minifier.__main__.main and source_modules over an in-memory tree whose
file names are symbolic strings; do_minify is the environment (per-file outcome chosen by symbolic parameters).
"""
from vf.clienv import Env, Exit, namespace

META = {
    'bounds': 'one directory argument with a two-level os.walk listing of three files whose names are symbolic strings '
              '(length <= 4 quick / 5 thorough, any characters but "/" and NUL) plus optionally one direct file argument; '
              'per file: minified / not-beneficial (symbolic); one failure of a symbolic kind (syntax error, undecodable, '
              'unreadable, read-only) at a symbolic position or none',
    'outside': 'a crash in the middle of f.write (not in the property\'s fault model); symlink loops and real file-system races; '
               'more than three walked files (the loop body is the same for every file)',
    'stubs': ['os.walk -> fixed two-level listing with symbolic names', 'os.path.isdir -> true for the directory argument only',
              'open -> in-memory files; write-open of a read-only file raises PermissionError before truncating (as the OS does)',
              'do_minify -> per-file outcome: b"M"+source, MinificationNotBeneficialError, SyntaxError or UnicodeDecodeError'],
    'assumptions': ['do_minify is a function of the source bytes (decided under C13/C14)'],
}


def _is_py(name):
    return name[-3:] == '.py' or name[-4:] == '.pyw'


def selection(f1: str, f2: str, f3: str, direct: bool) -> bool:
    """
    pre: 1 <= len(f1) <= 5 and 1 <= len(f2) <= 5 and 1 <= len(f3) <= 5
    pre: '/' not in f1 and '/' not in f2 and '/' not in f3
    pre: f1 != f2
    post: _
    """
    # which files are touched, for every spelling of three walked names (no failure injected)
    return _inplace_tree(f1, f2, f3, direct, False, False, False, 4, 0)


def selection2(f1: str, f3: str, direct: bool) -> bool:
    """
    pre: 1 <= len(f1) <= 5 and 1 <= len(f3) <= 5
    pre: '/' not in f1 and '/' not in f3
    pre: f1 != 'n.pyc'
    post: _
    """
    # two symbolic names (one per directory level) around a concrete non-Python file
    return _inplace_tree(f1, 'n.pyc', f3, direct, False, False, False, 4, 0)


def failure(f: str, direct: bool, nb1: bool, nb2: bool, nb3: bool, fail_pos: int, fail_kind: int) -> bool:
    """
    pre: 1 <= len(f) <= 5
    pre: '/' not in f
    pre: f != 'a.py'
    pre: 0 <= fail_pos <= 4
    pre: 0 <= fail_kind <= 3
    post: _
    """
    # failure handling: one symbolic name between two Python files, every failure position / kind / benefit pattern
    return _inplace_tree('a.py', f, 'c.pyw', direct, nb1, nb2, nb3, fail_pos, fail_kind)


def inplace_tree(f1, f2, f3, direct, nb1, nb2, nb3, fail_pos, fail_kind):
    return _inplace_tree(f1, f2, f3, direct, nb1, nb2, nb3, fail_pos, fail_kind)


def _inplace_tree(f1, f2, f3, direct, nb1, nb2, nb3, fail_pos, fail_kind):
    names = [f1, f2, f3]
    paths = ['d/' + f1, 'd/' + f2, 'd/s/' + f3, 'x.txt']
    content = [b'A', b'B', b'C', b'X']
    nb = [nb1, nb2, nb3, False]
    # the files the tool was pointed at, in visiting order (oracle, written independently of source_modules)
    selected = [i for i in range(3) if _is_py(names[i])]
    if direct:
        selected.append(3)
    failing = selected[fail_pos] if fail_pos < len(selected) else None

    env = Env(fs=[[paths[i], content[i]] for i in range(4)],
              dirs=[['d', [('d', ['s'], [f1, f2]), ('d/s', [], [f3])]]])
    if failing is not None and fail_kind == 2:
        env.unreadable = [paths[failing]]
    if failing is not None and fail_kind == 3:
        env.readonly = [paths[failing]]

    from python_minifier.__main__ import MinificationNotBeneficialError

    def fake_do_minify(source, filename, args):
        i = content.index(source)
        if failing == i and fail_kind == 0:
            raise SyntaxError('invalid syntax')
        if failing == i and fail_kind == 1:
            raise UnicodeDecodeError('utf-8', b'\xff', 0, 1, 'invalid start byte')
        if nb[i]:
            raise MinificationNotBeneficialError('larger')
        return b'M' + source

    args = namespace(['d', 'x.txt'] if direct else ['d'], in_place=True)
    raised = None
    with env.installed(args=args, do_minify=fake_do_minify) as m:
        try:
            m.main()
        except Exit as e:
            raised = e
        except Exception as e:  # noqa
            raised = e

    # expected end state
    expect = list(content)
    visited = []
    for i in selected:
        visited.append(i)
        if i == failing:
            # a failing file is never minified; a read-only file that is not beneficial is simply skipped
            if fail_kind == 3 and nb[i]:
                continue
            break
        if not nb[i]:
            expect[i] = b'M' + content[i]
    stopped = failing is not None and not (fail_kind == 3 and nb[failing])
    for i in range(4):
        if env.fs[paths[i]] != expect[i]:
            return False
    # nothing but the selected files is ever opened for writing, and nothing after the failing file
    allowed = [paths[i] for i in visited]
    for p in env.written_paths():
        if p not in allowed:
            return False
    if stopped:
        if raised is None:
            return False
        if isinstance(raised, Exit) and raised.code == 0:
            return False
    else:
        if raised is not None:
            return False
    # stdout lists exactly the files visited
    return env.stdout_text == ''.join([paths[i] + '\n' for i in visited]) and env.stdout_bytes == b''


def inplace_tree_twin(f1: str, f2: str, f3: str) -> bool:
    """
    pre: 1 <= len(f1) <= 4 and 1 <= len(f2) <= 4 and 1 <= len(f3) <= 4
    pre: '/' not in f1 and '/' not in f2 and '/' not in f3
    pre: f1 != f2
    post: _
    """
    # reachability: some listing does get a file rewritten (must be refuted)
    env = Env(fs=[['d/' + f1, b'A'], ['d/' + f2, b'B'], ['d/s/' + f3, b'C']],
              dirs=[['d', [('d', ['s'], [f1, f2]), ('d/s', [], [f3])]]])
    with env.installed(args=namespace(['d'], in_place=True), do_minify=lambda s, f, a: b'M' + s) as m:
        m.main()
    return env.written_paths() == []


def output_mode_single(nb: bool, fail: bool) -> bool:
    """
    post: _
    """
    # --output mode: only the output path is ever written; a failing source leaves everything untouched
    env = Env(fs=[['a.py', b'A'], ['o.py', b'OLD']])
    from python_minifier.__main__ import MinificationNotBeneficialError

    def fake(source, filename, args):
        if fail:
            raise SyntaxError('bad')
        if nb:
            raise MinificationNotBeneficialError('x')
        return b'M' + source

    raised = None
    with env.installed(args=namespace(['a.py'], output='o.py'), do_minify=fake) as m:
        try:
            m.main()
        except Exception as e:  # noqa
            raised = e
    if env.fs['a.py'] != b'A':
        return False
    if fail:
        return raised is not None and env.fs['o.py'] == b'OLD' and env.written_paths() == []
    return raised is None and env.fs['o.py'] == (b'A' if nb else b'MA') and all(p == 'o.py' for p in env.written_paths())


POOL = [
    b'__all__ = ["shared_name"]\nshared_name = 1\nother_value = shared_name\n',
    b'shared_name = 2\nresult_value = shared_name + shared_name\nprint(result_value, result_value)\n',
    b'def f[T](x: T) -> T:\n    long_local = x\n    return long_local\n',
    b'def g(a):\n    T = a + a\n    return T + T + T\n',
    b'x=1',
    b'True if 0in x else False',
]


def two_files_api(b0: bool, b1: bool, b2: bool, b3: bool, b4: bool, b5: bool, b6: bool, b7: bool, b8: bool, b9: bool) -> bool:
    """
    post: _
    """
    from vf.stubs import untraced, bits_index, decode_index
    d = decode_index(bits_index(b0, b1, b2, b3, b4, b5, b6, b7, b8, b9), [6, 6, 6, 2, 2])
    if d is None:
        return True
    return untraced(_two_files_api_impl, d[0], d[1], d[2], bool(d[3]), bool(d[4]))


def _two_files_api_impl(i, j, k, rg, keep):
    # one in-place run over three files with the real do_minify and the real minify: afterwards every file holds its
    # original bytes or exactly what the API returns for those bytes and the same options in a fresh call
    import python_minifier
    from python_minifier.transforms.remove_annotations_options import RemoveAnnotationsOptions
    src = [POOL[i], POOL[j], POOL[k]]
    paths = ['d/one.py', 'd/two.py', 'three.py']
    env = Env(fs=[[paths[n], src[n]] for n in range(3)], dirs=[['d', [('d', [], ['one.py', 'two.py'])]]])
    # the real parse_args() builds the namespace from a real argument vector
    import sys as real_sys
    from vf.stubs import patched
    argv = ['pyminify', 'd', 'three.py', '--in-place'] + (['--rename-globals'] if rg else [])
    if keep:
        argv += ['--preserve-globals', 'shared_name, result_value', '--preserve-locals', 'long_local,T']
    with patched(real_sys, 'argv', argv), env.installed() as m:
        m.main()
    for n in range(3):
        api = python_minifier.minify(src[n], filename=paths[n], rename_globals=rg,
                                     preserve_globals=['shared_name', 'result_value'] if keep else [], preserve_locals=['long_local', 'T'] if keep else [],
                                     remove_annotations=RemoveAnnotationsOptions()).encode('utf-8')
        want = api if len(api) <= len(src[n]) else src[n]
        if env.fs[paths[n]] != want:
            return False
    return True


def public_selection(f1, f2, f3, direct):
    return public_inplace_tree(f1, f2, f3, direct, False, False, False, 4, 0)


def public_selection2(f1, f3, direct):
    return public_inplace_tree(f1, 'n.pyc', f3, direct, False, False, False, 4, 0)


def public_failure(f, direct, nb1, nb2, nb3, fail_pos, fail_kind):
    return public_inplace_tree('a.py', f, 'c.pyw', direct, nb1, nb2, nb3, fail_pos, fail_kind)


def public_inplace_tree(f1, f2, f3, direct, nb1, nb2, nb3, fail_pos, fail_kind):
    """Replay on a real temporary tree with the real command line tool (real minify: outcomes are arranged through file content)."""
    import os, shutil, subprocess, sys, tempfile
    names = [f1, f2, f3]
    if any((not n) or '\x00' in n or '/' in n or n in ('.', '..') or n == 's' for n in names) or fail_kind in (2, 3):
        return {'violated': True, 'detail': 'not replayable on a real file system as root (name or permission case); the harness-level replay stands'}
    root = tempfile.mkdtemp(prefix='verif_c15_')
    try:
        d = os.path.join(root, 'd')
        os.makedirs(os.path.join(d, 's'))
        rel = ['d/' + f1, 'd/' + f2, 'd/s/' + f3, 'x.txt']
        nb = [nb1, nb2, nb3, False]
        selected = [i for i in range(3) if _is_py(names[i])] + ([3] if direct else [])
        failing = selected[fail_pos] if fail_pos < len(selected) else None
        before = {}
        for i in range(4):
            if i == failing:
                data = b'def\n' if fail_kind == 0 else b'x = "\xff"\n'
            elif nb[i]:
                data = b'x=%d' % i
            else:
                data = b'value = %d  # comment\n\n\n' % i
            with open(os.path.join(root, rel[i]), 'wb') as f:
                f.write(data)
            before[i] = data
        cmd = [sys.executable, '-m', 'python_minifier', 'd'] + (['x.txt'] if direct else []) + ['--in-place']
        p = subprocess.run(cmd, cwd=root, capture_output=True)
        after = {i: open(os.path.join(root, rel[i]), 'rb').read() for i in range(4)}
        import python_minifier
        problems = []
        order = list(os.walk(d))  # real directory order may differ from the symbolic listing: only order-free facts are checked
        for i in range(4):
            sel = i in selected
            if not sel and after[i] != before[i]:
                problems.append('%s was not selected but changed' % rel[i])
            if sel and after[i] != before[i]:
                try:
                    exp = python_minifier.minify(before[i]).encode('utf-8')
                except Exception:
                    exp = None
                if after[i] != exp:
                    problems.append('%s holds neither its original bytes nor the minified module' % rel[i])
        if failing is not None:
            if after[failing] != before[failing]:
                problems.append('failing file %s changed' % rel[failing])
            if p.returncode == 0:
                problems.append('exit status 0 although %s cannot be minified' % rel[failing])
        elif p.returncode != 0:
            problems.append('exit status %d without a failing file: %s' % (p.returncode, p.stderr[-300:]))
        return {'violated': bool(problems), 'detail': '; '.join(problems) or 'consistent'}
    finally:
        shutil.rmtree(root, ignore_errors=True)


def obligations(tier, seed):
    n = 4 if tier == 'quick' else 5
    t = 240 if tier == 'quick' else 2400
    sel2_shards = [['len(f1) == %d' % l1, 'len(f3) <= %d' % n, 'direct == %s' % dr] for l1 in range(1, n + 1) for dr in (True, False)]
    sel_shards = [['len(f1) == %d' % l1, 'len(f2) == %d' % l2, 'len(f3) <= 4', 'direct == False']
                  for l1 in range(1, 5) for l2 in range(1, 5)]
    fail_shards = [['len(f) <= %d' % n, 'fail_pos == %d' % fp, 'fail_kind == %d' % fk]
                   for fp in range(4) for fk in range(4)]
    return [
        dict(name='C15.selection2', fn='selection2', shards=sel2_shards, timeout=t,
             bounds='2 symbolic walked names |f| <= %d (all spellings) around a concrete .pyc file + optional direct non-.py argument' % n,
             public_replay='public_selection2'),
    ] + ([dict(name='C15.selection3', fn='selection', shards=sel_shards, timeout=t,
               bounds='3 symbolic walked names |f| <= 4 (all spellings)', public_replay='public_selection')] if tier == 'thorough' else []) + [
        dict(name='C15.failure', fn='failure', shards=fail_shards, timeout=t,
             bounds='one symbolic name |f| <= %d between a.py and c.pyw; failure position 0-3, 4 failure kinds, 2^3 benefit patterns, optional direct argument' % n,
             public_replay='public_failure'),
        dict(name='C15.inplace_tree.twin', fn='inplace_tree_twin', shards=[[]], timeout=t, expect='refuted', bounds='reachability twin'),
        dict(name='C15.two_files_api', fn='two_files_api', shards=[['b9 == %s' % b] for b in (True, False)], timeout=t,
             bounds='three files drawn from a pool of 6 sources (literal __all__, type parameters, plain, not-beneficial), real minify, rename_globals on/off, with and without --preserve-globals/--preserve-locals lists'),
        dict(name='C15.output_mode_single', fn='output_mode_single', shards=[[]], timeout=t, bounds='--output with one source'),
    ]
