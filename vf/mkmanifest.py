"""Regenerates /verif/MANIFEST.json from the table below (kept in one place so it stays valid)."""
import json, os

VERIF = os.path.dirname(os.path.dirname(os.path.abspath(__file__)))

CLAIMED = {}   # filled by register()
NA = {}


def claim(pid, text, note, technique, design_ref):
    CLAIMED[pid] = dict(
        property_id=pid,
        quick_cmd='bin/check %s --tier quick' % pid,
        thorough_cmd='bin/check %s --tier thorough' % pid,
        evidence_file='evidence/%s.json' % pid,
        replay_cmd_template='bin/check --replay {path}',
        engine='chx',
        level_claimed=dict(category='model_checking', text=text, design_ref=design_ref),
        level_note=note,
        technique=technique,
    )


def na(pid, reason):
    NA[pid] = dict(property_id=pid, reason=reason)


exec(open(os.path.join(VERIF, 'vf', 'manifest_table.py')).read())

manifest = {
    'version': 1,
    'setup_cmd': 'bash setup.sh',
    'hooks': {
        'guard': 'PYTHON_MINIFIER_VERIF',
        'enable': 'no hooks exist in /repo: all instrumentation is harness-side rebinding of module globals (DESIGN.md 2.4)',
        'baseline_off_cmd': 'cd /repo && /venv/bin/python -m pytest -ra -q -p no:cacheprovider --timeout=900 --continue-on-collection-errors',
        'source_commits': [],
        'add_only': True,
    },
    'engines': [
        {'name': 'chx', 'path': 'vf/driver.py', 'serves_properties': sorted(CLAIMED),
         'kind_free_text': 'CrossHair 0.0.110 (z3) symbolic execution of the real functions in /repo/src, one obligation '
                           '(harness function with PEP 316 contract) per process; verdict per obligation: confirmed over all '
                           'paths / counterexample (replayed against the real code) / inconclusive'},
        {'name': 'smtq', 'path': 'vf/smtq.py', 'serves_properties': ['C13'],
         'kind_free_text': 'direct z3 encoding of the argparse flag table read from the real parser object; '
                           'cross-checked with /usr/bin/z3 and validated on solver-chosen witnesses against the real parser'},
    ],
    'checks': [CLAIMED[k] for k in sorted(CLAIMED)],
    'not_applicable': [NA[k] for k in sorted(NA)],
    'notes': 'Solver-based checking of the real code (CrossHair + z3). Genuine defects found are repaired by fix: commits in '
             '/repo and listed in known_findings.json; see DESIGN.md sections 3 and 6.',
}
json.dump(manifest, open(os.path.join(VERIF, 'MANIFEST.json'), 'w'), indent=1)
print('claimed', sorted(CLAIMED), 'n/a', sorted(NA))
