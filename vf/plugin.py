"""CrossHair 0.0.110 workaround (trusted base, DESIGN.md 2.3).

SymbolicBoundedIntTuple.__getitem__(slice) raises
CrossHairInternal("_created_vars exceeded actual length") when a symbolic string was first compared with
longer strings (which lazily creates code-point variables) and is then sliced from the end, e.g.
`name.endswith('__')` after `name in dir(builtins)`.  The intended result is the slice of the first
`len` variables; the extra variables are unconstrained leftovers.  This wrapper returns exactly that.
"""


def install():
    try:
        from crosshair.libimpl.builtinslib import SymbolicBoundedIntTuple
    except Exception:
        return False
    if getattr(SymbolicBoundedIntTuple, '_verif_patched', False):
        return True
    orig = SymbolicBoundedIntTuple.__getitem__

    def __getitem__(self, argument):
        try:
            return orig(self, argument)
        except BaseException as e:  # noqa
            if type(e).__name__ == 'CrossHairInternal' and '_created_vars exceeded' in str(e) \
                    and isinstance(argument, slice):
                from crosshair.tracers import NoTracing
                from crosshair.core import realize
                with NoTracing():
                    n = realize(self._len)
                    start, stop, step = realize(argument.start), realize(argument.stop), realize(argument.step)
                    return self._created_vars[:n][start:stop:step]
            raise

    SymbolicBoundedIntTuple.__getitem__ = __getitem__
    SymbolicBoundedIntTuple._verif_patched = True
    return True
