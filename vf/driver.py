"""Driver: decides one property by running its CrossHair obligations against /repo's current tree.

usage: driver.py <PROPERTY-ID> [--tier quick|thorough] [--only NAME] [--jobs N]
       driver.py --replay <replay.json>

Exit codes: 0 = every explored obligation held (or was inconclusive and is reported as such, or is a listed
known finding); 1 = a replayed violation that known_findings.json does not list (a VIOLATION line is printed);
2 = harness/tool error (a counterexample that does not replay, an oracle self-test that fails, ...).
"""
import sys, os, json, time, subprocess, hashlib, argparse, importlib.util, concurrent.futures, collections

VERIF = os.path.dirname(os.path.dirname(os.path.abspath(__file__)))
if VERIF not in sys.path:
    sys.path.insert(0, VERIF)
PY = os.path.join(VERIF, '.venv', 'bin', 'python')
WORKER = os.path.join(VERIF, 'vf', 'worker.py')
REPLAYER = os.path.join(VERIF, 'vf', 'replay.py')

LEVEL = 'model_checking'


def load_harness(prop):
    path = os.path.join(VERIF, 'harness', prop + '.py')
    spec = importlib.util.spec_from_file_location('vh_' + prop, path)
    mod = importlib.util.module_from_spec(spec)
    sys.modules['vh_' + prop] = mod
    spec.loader.exec_module(mod)
    return path, mod


def load_known(prop):
    p = os.path.join(VERIF, 'known_findings.json')
    if not os.path.exists(p):
        return []
    data = json.load(open(p))
    return [f for f in data.get('findings', []) if f.get('property') == prop]


def run_worker(job):
    """Runs one shard; an inconclusive shard (timeout, aborted paths, worker error) is retried once with 1.5x the budget."""
    res = _run_worker_once(job)
    if res.get('verdict') in ('unknown', 'pre_unsat', 'error') and job.get('expect') != 'refuted' and not job.get('_retried'):
        job2 = dict(job, timeout=int(job['timeout'] * 1.5), _retried=True)
        res2 = _run_worker_once(job2)
        res2['retried'] = True
        res2['first_attempt'] = {'verdict': res.get('verdict'), 'error': res.get('error'), 'paths': res.get('num_paths')}
        return res2
    return res


def _run_worker_once(job):
    """job: dict(path, fn, extra_pre, timeout, per_path_timeout, label)"""
    spec = {'extra_pre': job['extra_pre'], 'timeout': job['timeout']}
    if job.get('per_path_timeout'):
        spec['per_path_timeout'] = job['per_path_timeout']
    hard = int(job['timeout'] * 1.5 + 60)
    env = dict(os.environ)
    env['PYTHONHASHSEED'] = '0'
    env.pop('PYTHON_MINIFIER_VERIF', None)
    t0 = time.time()
    try:
        py = PY
        if job.get('python') == 'py311':
            # second interpreter (pre-PEP 701 paths): the tooling venv has crosshair; the package is stdlib-only
            py = 'python3-vt'
            env['PYTHONPATH'] = os.path.join(os.environ.get('VERIF_REPO', '/repo'), 'src') + ':' + VERIF
        p = subprocess.run([py, WORKER, job['path'], job['fn'], json.dumps(spec)], capture_output=True, text=True,
                           timeout=hard, env=env, cwd=VERIF)
        out = p.stdout
        res = None
        for line in reversed(out.splitlines()):
            if line.startswith('RESULT:'):
                res = json.loads(line[7:])
                break
        if res is None:
            res = {'verdict': 'error', 'error': 'worker produced no result (rc=%s): %s' % (p.returncode, (p.stderr or '')[-1500:])}
    except subprocess.TimeoutExpired:
        res = {'verdict': 'unknown', 'error': 'hard timeout after %ss' % hard}
    res['label'] = job['label']
    res['job'] = {k: job[k] for k in ('fn', 'extra_pre', 'timeout', 'expect', 'obligation', 'kind')}
    res.setdefault('wall_s', round(time.time() - t0, 3))
    return res


def run_replay(path, fn, args, public):
    env = dict(os.environ)
    env.pop('PYTHON_MINIFIER_VERIF', None)
    try:
        p = subprocess.run([PY, REPLAYER, path, fn, json.dumps(args), public or ''], capture_output=True, text=True,
                           timeout=600, env=env, cwd=VERIF)
    except subprocess.TimeoutExpired:
        return {'harness_violated': None, 'error': 'replay timeout'}
    for line in reversed(p.stdout.splitlines()):
        if line.startswith('REPLAY:'):
            return json.loads(line[7:])
    return {'harness_violated': None, 'error': 'replay produced no result: ' + (p.stderr or '')[-1500:]}


def main():
    ap = argparse.ArgumentParser()
    ap.add_argument('prop', nargs='?')
    ap.add_argument('--tier', default=os.environ.get('VERIF_TIER', 'quick'))
    ap.add_argument('--only', default=None)
    ap.add_argument('--jobs', type=int, default=int(os.environ.get('VERIF_JOBS', '16')))
    ap.add_argument('--replay', default=None)
    ap.add_argument('--no-evidence', action='store_true')
    a = ap.parse_args()

    if a.replay:
        r = json.load(open(a.replay))
        path = os.path.join(VERIF, 'harness', r['property'] + '.py')
        res = run_replay(path, r['fn'], r['args'], r.get('public_replay'))
        print(json.dumps(res, indent=1))
        violated = res.get('harness_violated') and res.get('public_violated', True) is not False
        print('REPRODUCED' if violated else 'NOT REPRODUCED')
        return 1 if violated else 0

    prop = a.prop
    tier = a.tier if a.tier in ('quick', 'thorough') else 'quick'
    try:
        seed = int(os.environ.get('VERIF_SEED', '0'))
    except ValueError:
        seed = 0
    t_start = time.time()
    path, mod = load_harness(prop)
    known = [f for f in load_known(prop)]
    open_known = [f for f in known if f.get('status') == 'open']

    harness_errors = []
    selftest_count = 0
    # oracle / stub self-tests (DESIGN.md 3.3): concrete, fast; a failure is a harness error, not a violation
    if hasattr(mod, 'selftest'):
        try:
            selftest_count = int(mod.selftest(tier) or 0)
        except Exception as e:  # noqa
            import traceback
            harness_errors.append('selftest failed: %r\n%s' % (e, traceback.format_exc()[-1500:]))

    # direct solver obligations (engine E2): decided inside the harness module with z3, already replayed there
    direct = []
    if hasattr(mod, 'direct_obligations') and not a.only:
        try:
            direct = list(mod.direct_obligations(tier, seed))
        except Exception as e:  # noqa
            import traceback
            harness_errors.append('direct obligations failed: %r\n%s' % (e, traceback.format_exc()[-1500:]))

    obligations = mod.obligations(tier, seed)
    if a.only:
        obligations = [o for o in obligations if a.only in o['name']]

    jobs = []
    for ob in obligations:
        shards = ob.get('shards') or [[]]
        kn = [f for f in open_known if f.get('obligation') == ob['name']]
        excl = ['not (%s)' % f['predicate'] for f in kn]
        for si, sh in enumerate(shards):
            sh = list(sh) if isinstance(sh, (list, tuple)) else [sh]
            jobs.append(dict(path=path, fn=ob['fn'], extra_pre=sh + excl, timeout=ob.get('timeout', 60),
                             per_path_timeout=ob.get('per_path_timeout'), expect=ob.get('expect', 'confirmed'),
                             obligation=ob['name'], kind='main', python=ob.get('python'),
                             label='%s[%d/%d]' % (ob['name'], si + 1, len(shards))))
        for f in kn:
            first = shards[0] if shards else []
            first = list(first) if isinstance(first, (list, tuple)) else [first]
            jobs.append(dict(path=path, fn=ob['fn'], extra_pre=first + [f['predicate']], timeout=ob.get('timeout', 60),
                             per_path_timeout=ob.get('per_path_timeout'), expect='known', obligation=ob['name'],
                             kind='known', finding=f, python=ob.get('python'), label='%s[known:%s]' % (ob['name'], f['id'])))
    # longest first
    jobs.sort(key=lambda j: -j['timeout'])
    results = []
    with concurrent.futures.ThreadPoolExecutor(max_workers=max(1, a.jobs)) as ex:
        futs = {ex.submit(run_worker, j): j for j in jobs}
        for fu in concurrent.futures.as_completed(futs):
            r = fu.result()
            r['_job'] = futs[fu]
            results.append(r)

    ob_by_name = {o['name']: o for o in obligations}
    violations = []   # (obligation, args, replay result, replay path)
    inconclusive = []
    known_lines = []
    per_ob = collections.OrderedDict()
    for o in obligations:
        per_ob[o['name']] = {'name': o['name'], 'fn': o['fn'], 'expect': o.get('expect', 'confirmed'),
                             'bounds': o.get('bounds', ''), 'shards': 0, 'confirmed_shards': 0, 'paths': 0,
                             'solver_queries': 0, 'solver_time_s': 0.0, 'cpu_s': 0.0, 'verdict': None,
                             'pre': None, 'post': None, 'entered': set(), 'notes': []}
    replays_done = 0
    for r in sorted(results, key=lambda r: r['label']):
        j = r['_job']
        if os.environ.get('VERIF_VERBOSE'):
            print('SHARD %s verdict=%s paths=%s wall=%ss pre=%s' % (r['label'], r.get('verdict'), r.get('num_paths'), r.get('wall_s'), j['extra_pre']))
        po = per_ob[j['obligation']]
        ob = ob_by_name[j['obligation']]
        if j['kind'] == 'main':
            po['shards'] += 1
        po['paths'] += int(r.get('num_paths') or 0)
        sv = r.get('solver') or {}
        po['solver_queries'] += int(sv.get('queries') or 0)
        po['solver_time_s'] += float(sv.get('time_s') or 0)
        po['cpu_s'] += float(r.get('cpu_s') or 0)
        po['entered'].update(e for e in (r.get('entered') or []) if not e.endswith(':<module>'))
        if po['pre'] is None and r.get('pre') is not None and j['kind'] == 'main':
            po['pre'] = r.get('pre'); po['post'] = r.get('post')
        v = r.get('verdict')
        expect = j['expect']
        if v == 'error':
            harness_errors.append('%s: %s' % (r['label'], r.get('error')))
            po['notes'].append('error: %s' % r.get('error'))
            continue
        if expect == 'confirmed':
            if v == 'confirmed':
                po['confirmed_shards'] += 1
            elif v == 'counterexample':
                cexs = r.get('counterexamples') or []
                if any('NotDeterministic' in (m.get('message') or '') for m in (r.get('messages') or [])):
                    inconclusive.append((r['label'], 'NotDeterministic: the code under test took different paths on identical decisions (hidden state carried between executions?)', r.get('path_tree')))
                    po['notes'].append('NotDeterministic in shard %s' % r['label'])
                    continue
                if not cexs or '__error__' in cexs[0]:
                    harness_errors.append('%s: counterexample without realisable arguments: %s' % (r['label'], r.get('messages')))
                    continue
                args = cexs[0]
                rr = run_replay(path, j['fn'], args, ob.get('public_replay'))
                replays_done += 1
                if rr.get('harness_violated') and rr.get('public_violated', True) is not False:
                    violations.append((j['obligation'], j['fn'], args, rr, r.get('messages'), ob.get('public_replay')))
                    po['notes'].append('VIOLATED with %s' % args)
                elif rr.get('harness_violated') and rr.get('public_violated') is False:
                    # the harness-level counterexample does not reproduce through the public API (e.g. it needs names that
                    # are not identifiers): spurious; the shard's search stopped there, so it is inconclusive (DESIGN.md 3.4)
                    inconclusive.append((r['label'], 'spurious counterexample %s: %s' % (args, str(rr.get('public_detail'))[:300]), r.get('path_tree')))
                    po['notes'].append('spurious counterexample %s' % args)
                else:
                    harness_errors.append('%s: counterexample %s did not replay (%s)' % (r['label'], args, json.dumps(rr)[:600]))
                    po['notes'].append('spurious counterexample %s' % args)
            else:
                why = v
                if r.get('error'):
                    why += ' (%s)' % r['error']
                tree = r.get('path_tree')
                inconclusive.append((r['label'], why, tree))
                po['notes'].append('shard %s inconclusive: %s tree=%s' % (r['label'], why, tree))
        elif expect == 'refuted':
            # vacuity / reachability twin: must come back with a counterexample
            if v == 'counterexample':
                po['confirmed_shards'] += 1
            else:
                inconclusive.append((r['label'], 'reachability twin not refuted (%s): the obligation may be vacuous' % v, r.get('path_tree')))
                po['notes'].append('twin not refuted: %s' % v)
        elif expect == 'known':
            f = j['finding']
            if v == 'counterexample':
                cexs = r.get('counterexamples') or []
                args = cexs[0] if cexs else None
                rr = run_replay(path, j['fn'], args, ob.get('public_replay')) if args and '__error__' not in args else {}
                replays_done += 1
                if rr.get('harness_violated') and rr.get('public_violated', True) is not False:
                    known_lines.append('KNOWN-FINDING: property=%s %s [%s; witness %s]' % (prop, f['description'], f['id'], args))
                else:
                    harness_errors.append('%s: known-finding counterexample did not replay: %s' % (r['label'], json.dumps(rr)[:400]))
            elif v == 'confirmed':
                po['notes'].append('known finding %s no longer reproduces (class now confirmed)' % f['id'])
                print('NOTE: property=%s known finding %s no longer reproduces; its entry can be marked fixed' % (prop, f['id']))
            else:
                # fall back to the committed witness: replay it concretely
                rr = run_replay(path, j['fn'], f['witness'], ob.get('public_replay'))
                replays_done += 1
                if rr.get('harness_violated') and rr.get('public_violated', True) is not False:
                    known_lines.append('KNOWN-FINDING: property=%s %s [%s; committed witness]' % (prop, f['description'], f['id']))
                else:
                    po['notes'].append('known finding %s: solver inconclusive and witness does not reproduce' % f['id'])

    # obligation verdicts
    n_ob = 0
    n_dis = 0
    for name, po in per_ob.items():
        n_ob += 1
        if any(vv[0] == name for vv in violations):
            po['verdict'] = 'violated'
        elif po['shards'] and po['confirmed_shards'] >= po['shards']:
            po['verdict'] = 'discharged' if po['expect'] == 'confirmed' else 'reachable (twin refuted as required)'
            n_dis += 1
        else:
            po['verdict'] = 'inconclusive'

    # direct (z3) obligations
    direct_samples = []
    direct_violations = []
    for d in direct:
        n_ob += 1
        if d['verdict'] == 'discharged':
            n_dis += 1
        elif d['verdict'] == 'violated':
            direct_violations.append(d)
        else:
            inconclusive.append((d['name'], '; '.join(d.get('problems') or ['inconclusive']), None))
        direct_samples.append({'obligation': d['name'], 'engine': 'z3 direct encoding', 'verdict': d['verdict'],
                               'bounds': d.get('bounds', ''), 'smt_queries': d.get('queries', 0),
                               'solver_time_s': d.get('solver_time_s', 0), 'queries': d.get('samples', []),
                               'problems': d.get('problems', [])[:10],
                               'repo_functions_executed_symbolically': d.get('functions', [])})

    # report violations
    rc = 0
    os.makedirs(os.path.join(VERIF, 'replays'), exist_ok=True)
    seen = set()
    for (obn, fn, args, rr, msgs, pub) in violations:
        h = hashlib.sha1(json.dumps([obn, args], sort_keys=True).encode()).hexdigest()[:10]
        if h in seen:
            continue
        seen.add(h)
        rp = os.path.join(VERIF, 'replays', '%s-%s.json' % (prop, h))
        json.dump({'property': prop, 'obligation': obn, 'fn': fn, 'args': args, 'public_replay': pub,
                   'observed': rr, 'crosshair_messages': msgs,
                   'rerun': '%s/bin/check --replay %s' % (VERIF, rp)}, open(rp, 'w'), indent=1)
        print('VIOLATION property=%s replay=%s' % (prop, rp))
        print('  obligation=%s args=%s' % (obn, args))
        print('  detail=%s' % json.dumps(rr)[:1200])
        rc = 1
    remaining = []
    for d in direct_violations:
        kf = [f for f in open_known if f.get('obligation') == d['name'] and f.get('direct') and f.get('key') == (d.get('violation') or {}).get('key')]
        if kf:
            known_lines.append('KNOWN-FINDING: property=%s %s [%s; %s]' % (prop, kf[0]['description'], kf[0]['id'], str((d.get('violation') or {}).get('detail'))[:300]))
        else:
            remaining.append(d)
    direct_violations = remaining
    for d in direct_violations:
        h = hashlib.sha1(json.dumps([d['name'], d['violation']], sort_keys=True, default=str).encode()).hexdigest()[:10]
        rp = os.path.join(VERIF, 'replays', '%s-%s.json' % (prop, h))
        json.dump({'property': prop, 'obligation': d['name'], 'direct': True, 'violation': d['violation'],
                   'problems': d.get('problems')}, open(rp, 'w'), indent=1, default=str)
        print('VIOLATION property=%s replay=%s' % (prop, rp))
        print('  obligation=%s detail=%s' % (d['name'], json.dumps(d['violation'], default=str)[:1200]))
        seen.add(h)
        rc = 1
    for line in known_lines:
        print(line)
    for (label, why, tree) in inconclusive:
        print('INCONCLUSIVE property=%s obligation=%s reason=%s paths=%s' % (prop, label, why, tree))
    for e in harness_errors:
        print('HARNESS-ERROR property=%s %s' % (prop, e))
    if harness_errors and rc == 0:
        rc = 2

    wall = time.time() - t_start
    total_paths = sum(po['paths'] for po in per_ob.values())
    total_q = sum(po['solver_queries'] for po in per_ob.values()) + sum(int(d.get('queries') or 0) for d in direct)
    samples = []
    for po in per_ob.values():
        samples.append({'obligation': po['name'], 'harness': po['fn'], 'expect': po['expect'], 'verdict': po['verdict'],
                        'pre': po['pre'], 'post': po['post'], 'bounds': po['bounds'], 'shards': po['shards'],
                        'shards_decided': po['confirmed_shards'], 'paths_explored': po['paths'],
                        'smt_queries': po['solver_queries'], 'solver_time_s': round(po['solver_time_s'], 2),
                        'cpu_s': round(po['cpu_s'], 1), 'notes': po['notes'][:6],
                        'repo_functions_executed_symbolically': sorted(po['entered'])[:60]})
    samples = direct_samples + samples
    replays_done += sum(int(d.get('witnesses_validated') or 0) for d in direct)
    meta = getattr(mod, 'META', {})
    evidence = {
        'property_id': prop, 'tier': tier, 'seed': seed, 'level': LEVEL,
        'coverage': {
            'states': max(1, total_paths), 'transitions': max(1, total_q),
            'traces_validated_against_impl': replays_done + selftest_count,
            'samples': samples,
            'obligations': n_ob, 'discharged': n_dis,
            'exhaustive': bool(n_ob and n_dis == n_ob),
            'rule': 'states = execution paths of the real code explored symbolically by CrossHair (each decided by z3); '
                    'transitions = SMT queries issued; an obligation is discharged only if every shard came back '
                    '"Confirmed over all paths" (or, for a reachability twin, refuted as required)',
            'engine': 'crosshair-tool 0.0.110 + z3 (python API) on %s' % PY,
            'functions_encoded': sorted(set().union(*[po['entered'] for po in per_ob.values()]) if per_ob else [])[:200],
            'bounds': meta.get('bounds', ''),
            'outside_claim': meta.get('outside', ''),
            'stubs': meta.get('stubs', []),
            'solver_time_s': round(sum(po['solver_time_s'] for po in per_ob.values()), 2),
            'cpu_s': round(sum(po['cpu_s'] for po in per_ob.values()), 1),
            'inconclusive': [list(map(str, x)) for x in inconclusive][:40],
            'known_findings_reported': known_lines,
            'harness_errors': harness_errors[:20],
            'oracle_selftest_cases': selftest_count,
        },
        'assumptions': meta.get('assumptions', []),
        'wall_s': round(wall, 2),
        'violations': len(seen),
    }
    if not a.no_evidence and not a.only:
        os.makedirs(os.path.join(VERIF, 'evidence'), exist_ok=True)
        json.dump(evidence, open(os.path.join(VERIF, 'evidence', prop + '.json'), 'w'), indent=1)
    print('SUMMARY property=%s tier=%s obligations=%d discharged=%d paths=%d smt_queries=%d violations=%d known=%d '
          'inconclusive=%d errors=%d wall=%.1fs' % (prop, tier, n_ob, n_dis, total_paths, total_q, len(seen), len(known_lines),
                                                    len(inconclusive), len(harness_errors), wall))
    return rc


if __name__ == '__main__':
    sys.exit(main())
