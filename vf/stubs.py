"""Harness-side stubs shared by the obligations (each stub is part of the claim; see DESIGN.md 2.3)."""
import ast
import contextlib
import sys
import types

import python_minifier
import python_minifier.ast_compat as astc

ALL_OFF = dict(
    remove_annotations=False, remove_pass=False, remove_literal_statements=False, combine_imports=False,
    hoist_literals=False, rename_locals=False, rename_globals=False, remove_object_base=False,
    convert_posargs_to_args=False, preserve_shebang=False, remove_asserts=False, remove_debug=False,
    remove_explicit_return_none=False, remove_builtin_exception_brackets=False, constant_folding=False,
)


@contextlib.contextmanager
def patched(obj, name, value):
    """Rebind obj.name for the duration of the block (works for modules and classes)."""
    missing = object()
    old = obj.__dict__.get(name, missing) if hasattr(obj, '__dict__') else getattr(obj, name, missing)
    setattr(obj, name, value)
    try:
        yield
    finally:
        if old is missing:
            try:
                delattr(obj, name)
            except AttributeError:
                pass
        else:
            setattr(obj, name, old)


def mod(name):
    """sys.modules lookup (python_minifier.rename is shadowed by the function of the same name)."""
    __import__(name)
    return sys.modules[name]


class Capture(object):
    def __init__(self):
        self.tree = None


@contextlib.contextmanager
def pipeline(tree, printed='P', capture=None, placeholder_only=False):
    """Enter the real minify() body without text: ast.parse returns `tree`, unparse returns `printed`.

    Everything between (stage order, option gating, taint handling, preserve lists) is the real code.
    """
    real_parse = astc.parse

    def fake_parse(*a, **k):
        # minify('') is the entry point: the empty placeholder source stands for the pre-built tree; any other text
        # (e.g. constant folding re-parsing its candidate) goes to the real parser
        if not placeholder_only or (a and isinstance(a[0], str) and a[0] == ''):
            return tree
        return real_parse(*a, **k)

    def fake_unparse(module):
        if capture is not None:
            capture.tree = module
        return printed

    with patched(astc, 'parse', fake_parse), patched(python_minifier, 'unparse', fake_unparse):
        yield


def fresh_module(body=None):
    return ast.Module(body=list(body or []), type_ignores=[])


# --- builtin namespace stub -------------------------------------------------------------------------------------
BUILTIN_STUB_NAMES = ['len', 'eval', 'exec', 'locals', 'globals', 'vars', 'object', 'super', 'ValueError',
                      'KeyError', 'print', 'id', '__debug__']


def make_builtins_stub(names=BUILTIN_STUB_NAMES):
    m = types.ModuleType('builtins_stub')
    for k in list(m.__dict__):
        if k not in ('__name__',):
            try:
                delattr(m, k)
            except Exception:
                pass
    for n in names:
        setattr(m, n, getattr(__import__('builtins'), n, None))
    return m


@contextlib.contextmanager
def builtins_stubbed(names=BUILTIN_STUB_NAMES):
    """`builtins` as seen by the renamer = a small representative module (bound: stated in the evidence)."""
    stub = make_builtins_stub(names)
    mods = [mod('python_minifier.rename.util'), mod('python_minifier.rename.bind_names'),
            mod('python_minifier.rename.resolve_names'), mod('python_minifier.rename.name_generator')]
    with contextlib.ExitStack() as st:
        for m in mods:
            st.enter_context(patched(m, 'builtins', stub))
        yield stub


# --- deterministic hashing of AST nodes ------------------------------------------------------------------------
# python_minifier keeps AST nodes in sets ({namespace} in reservation_scope).  Their default hash is the memory address,
# so the iteration order - and with it the order in which CrossHair meets symbolic decisions - differs from path to
# path ("NotDeterministic").  Node identity semantics are unchanged (__eq__ stays identity); only the hash becomes the
# node's creation index.
_hash_counter = [0]


def _node_hash(self):
    h = self.__dict__.get('_vh')
    if h is None:
        _hash_counter[0] += 1
        h = _hash_counter[0]
        self.__dict__['_vh'] = h
    return h


def deterministic_node_hash(tree=None):
    """Installs the deterministic hash and (re)numbers the nodes of `tree` in traversal order."""
    if ast.AST.__hash__ is not _node_hash:
        ast.AST.__hash__ = _node_hash
    _hash_counter[0] = 0
    if tree is not None:
        for node in ast.walk(tree):
            _hash_counter[0] += 1
            node.__dict__['_vh'] = _hash_counter[0]


# --- module-level state of the code under test -----------------------------------------------------------------------
class ModuleState(object):
    """Mutable module-level containers (dict/list/set) of a module, captured when the harness is imported and restored
    before every harness execution: CrossHair re-executes the harness once per path in one process, so state that the
    code under test keeps in module globals would leak from path to path ("NotDeterministic") - and within one
    execution it must start pristine so that multi-step scenarios see exactly the state a fresh process would."""

    def __init__(self, module):
        import copy
        self.module = module
        self.baseline = {}
        for k, v in list(module.__dict__.items()):
            if isinstance(v, (dict, list, set)) and not k.startswith('__'):
                try:
                    self.baseline[k] = copy.deepcopy(v)
                except Exception:  # noqa
                    pass

    def reset(self):
        import copy
        for k, v in list(self.module.__dict__.items()):
            if isinstance(v, (dict, list, set)) and not k.startswith('__'):
                if k in self.baseline:
                    fresh = copy.deepcopy(self.baseline[k])
                else:
                    fresh = type(v)()
                if isinstance(v, dict):
                    v.clear(); v.update(fresh)
                elif isinstance(v, list):
                    v[:] = fresh
                else:
                    v.clear(); v.update(fresh)


def untraced(fn, *args):
    """Runs fn on realised (concrete) arguments with CrossHair's tracer switched off.  Used where every parameter is a
    structure parameter: CrossHair forks once per value combination (the verdict "Confirmed over all paths" still
    means every combination was executed), and the concrete work is not interpreted opcode by opcode."""
    try:
        from crosshair.tracers import NoTracing, is_tracing
        from crosshair.core import realize
    except ImportError:
        return fn(*args)
    if not is_tracing():
        return fn(*args)
    real = [realize(a) for a in args]
    with NoTracing():
        return fn(*real)


def bits_index(*bits):
    """Index from boolean structure parameters: CrossHair explores booleans as a balanced decision tree (one fork per bit),
    whereas realising a wide int costs O(n) decisions per path."""
    idx = 0
    for i, b in enumerate(bits):
        if b:
            idx += 1 << i
    return idx


def decode_index(idx, radices):
    """Mixed-radix decoding; None if idx is outside the product of the radices."""
    out = []
    for r in radices:
        out.append(idx % r)
        idx //= r
    return None if idx else out
