"""In-memory environment for python_minifier.__main__ (C13, C14, C15): argparse result, files, stdin/stdout, os.

Every stub returns arbitrary (symbolic) content constrained only by its documented contract.
"""
import argparse
import contextlib
import io
import sys
import types

from vf.stubs import mod, patched, ModuleState

_MAIN_STATE = ModuleState(mod('python_minifier.__main__'))

BOOL_DESTS = ['combine_imports', 'remove_pass', 'remove_literal_statements', 'hoist_literals', 'rename_locals',
              'rename_globals', 'remove_object_base', 'convert_posargs_to_args', 'preserve_shebang', 'remove_asserts',
              'remove_debug', 'remove_explicit_return_none', 'remove_exception_brackets', 'constant_folding',
              'remove_annotations', 'remove_variable_annotations', 'remove_return_annotations',
              'remove_argument_annotations', 'remove_class_attribute_annotations']

DEFAULT_NS = dict(combine_imports=True, remove_pass=True, remove_literal_statements=False, hoist_literals=True,
                  rename_locals=True, rename_globals=False, remove_object_base=True, convert_posargs_to_args=True,
                  preserve_shebang=True, remove_asserts=False, remove_debug=False, remove_explicit_return_none=True,
                  remove_exception_brackets=True, constant_folding=True, remove_annotations=True,
                  remove_variable_annotations=True, remove_return_annotations=True, remove_argument_annotations=True,
                  remove_class_attribute_annotations=False, preserve_locals=None, preserve_globals=None)


def namespace(path, output=None, in_place=False, **over):
    d = dict(DEFAULT_NS)
    d.update(over)
    return argparse.Namespace(path=path, output=output, in_place=in_place, **d)


class Exit(Exception):
    def __init__(self, code):
        self.code = code


class FakeFile(object):
    def __init__(self, env, path, mode):
        self.env = env
        self.path = path
        self.mode = mode
        self.buf = b''

    def __enter__(self):
        return self

    def __exit__(self, *a):
        if 'w' in self.mode:
            self.env.fs[self.path] = self.buf
        return False

    def read(self):
        return self.env.fs[self.path]

    def write(self, data):
        self.buf = self.buf + data
        self.env.log.append(('write', self.path))


class AList(object):
    """Association list with == lookup (a dict would hash, i.e. realise, symbolic path strings)."""

    def __init__(self, items=None):
        self.items = [[k, v] for k, v in (items.items() if isinstance(items, dict) else (items or []))]

    def _find(self, k):
        for it in self.items:
            if it[0] == k:
                return it
        return None

    def __contains__(self, k):
        return self._find(k) is not None

    def __getitem__(self, k):
        it = self._find(k)
        if it is None:
            raise KeyError(k)
        return it[1]

    def get(self, k, default=None):
        it = self._find(k)
        return default if it is None else it[1]

    def __setitem__(self, k, v):
        it = self._find(k)
        if it is None:
            self.items.append([k, v])
        else:
            it[1] = v

    def keys(self):
        return [it[0] for it in self.items]


class Env(object):
    """fs: path -> bytes; dirs: dir -> [(root, [dirs], [files]), ...] walk listings (association lists)."""

    def __init__(self, fs=None, dirs=None, stdin=b'', environ=None, readonly=(), unreadable=()):
        self.fs = AList(fs)
        self.dirs = AList(dirs)
        self.stdin = stdin
        self.stdout_bytes = b''
        self.stdout_text = ''
        self.stderr_text = ''
        self.environ = dict(environ or {})
        self.readonly = list(readonly)
        self.unreadable = list(unreadable)
        self.log = []       # ('open', path, mode) / ('write', path)

    # -- builtins.open ---------------------------------------------------------------------------------------
    def open(self, path, mode='r', *a, **k):
        self.log.append(('open', path, mode))
        if 'w' in mode:
            if path in self.readonly:
                raise PermissionError(13, 'Permission denied', path)
            # opening for writing truncates at once, exactly like the real open()
            self.fs[path] = b''
            return FakeFile(self, path, mode)
        if path in self.unreadable:
            raise PermissionError(13, 'Permission denied', path)
        if path not in self.fs:
            raise FileNotFoundError(2, 'No such file or directory', path)
        return FakeFile(self, path, mode)

    # -- os ---------------------------------------------------------------------------------------------------
    def isdir(self, p):
        return p in self.dirs

    def walk(self, top, onerror=None, followlinks=False):
        for entry in self.dirs[top]:
            yield entry

    def make_os(self):
        env = self
        path = types.SimpleNamespace(isdir=self.isdir, join=lambda a, b: a + '/' + b)

        class Environ(object):
            def get(self, k, default=None):
                return env.environ.get(k, default)

        return types.SimpleNamespace(path=path, walk=self.walk, environ=Environ())

    # -- sys --------------------------------------------------------------------------------------------------
    def make_sys(self):
        env = self

        class OutBuf(object):
            def write(self, data):
                env.stdout_bytes = env.stdout_bytes + data
                env.log.append(('write', '<stdout>'))

        class Out(object):
            buffer = OutBuf()

            def write(self, text):
                env.stdout_text = env.stdout_text + text

        class Err(object):
            def write(self, text):
                env.stderr_text = env.stderr_text + text

        class InBuf(object):
            def read(self):
                return env.stdin

        class In(object):
            buffer = InBuf()

        def exit(code=0):
            raise Exit(code)

        return types.SimpleNamespace(version_info=sys.version_info, stdout=Out(), stderr=Err(), stdin=In(), exit=exit,
                                     argv=['pyminify'])

    @contextlib.contextmanager
    def installed(self, args=None, minify=None, do_minify=None):
        m = mod('python_minifier.__main__')
        _MAIN_STATE.reset()
        with contextlib.ExitStack() as st:
            st.enter_context(patched(m, 'os', self.make_os()))
            st.enter_context(patched(m, 'sys', self.make_sys()))
            st.enter_context(patched(m, 'open', self.open))
            if args is not None:
                st.enter_context(patched(m, 'parse_args', lambda: args))
            if minify is not None:
                st.enter_context(patched(m, 'minify', minify))
            if do_minify is not None:
                st.enter_context(patched(m, 'do_minify', do_minify))
            yield m

    def written_paths(self):
        return [e[1] for e in self.log if e[0] == 'open' and 'w' in e[2]]
