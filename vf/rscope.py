"""R-scope: reference implementation of CPython's static scoping rules on an ast tree (C03, C04, C06, C09, C10).

Independent of python_minifier.  Works on trees whose identifiers are CrossHair symbolic strings: it only compares
strings.  Validated against the interpreter's own `symtable` / `compile` on concrete instantiations (harness selftest).

analyse(tree) -> Analysis with
  .occ      list of Occurrence(node, field, index, name, kind, scope)   kind: 'load' | 'store' | 'decl'
  .binding(occ) -> ('L', scope, name) for a name local to a function/lambda/comprehension/class scope (incl. nonlocal
               references, resolved to the owning scope) or ('G', name) for the module/global namespace (builtins included)
  .errors   list of compile-time scoping errors (the program is not compilable if non-empty)
Type parameter scopes (3.12) are not modelled: trees containing type parameters are outside this oracle.
"""
import ast


class Scope(object):
    def __init__(self, node, kind, parent):
        self.node = node
        self.kind = kind            # 'module' | 'function' | 'class' | 'comp'
        self.parent = parent
        self.binds = []             # names bound here (list: symbolic strings are not hashed)
        self.params = []
        self.globals = []
        self.nonlocals = []
        self.annotated = []
        self.uses_before_decl = []  # names used or bound so far (for "used prior to global declaration")
        self.comp_iter_vars = []

    def has(self, lst, name):
        for n in lst:
            if n == name:
                return True
        return False


class Occurrence(object):
    __slots__ = ('node', 'field', 'index', 'name', 'kind', 'scope')

    def __init__(self, node, field, index, name, kind, scope):
        self.node = node
        self.field = field
        self.index = index
        self.name = name
        self.kind = kind
        self.scope = scope

    def key(self):
        return (id(self.node), self.field, self.index)


class Analysis(object):
    def __init__(self):
        self.occ = []
        self.scopes = []
        self.errors = []
        self.module = None

    # -- resolution ------------------------------------------------------------------------------------------
    def _function_chain(self, scope):
        s = scope.parent
        while s is not None:
            if s.kind != 'class':
                yield s
            s = s.parent

    def resolve(self, name, scope):
        """('G', name) or ('L', scope, name)."""
        if scope.kind == 'module':
            return ('G', name)
        if scope.has(scope.globals, name):
            return ('G', name)
        if scope.has(scope.nonlocals, name):
            for s in self._function_chain(scope):
                if s.kind == 'module':
                    break
                if s.has(s.globals, name):
                    break
                if s.has(s.nonlocals, name):
                    continue
                if s.has(s.binds, name):
                    return ('L', s, name)
            return ('E', name)
        if scope.has(scope.binds, name):
            return ('L', scope, name)
        for s in self._function_chain(scope):
            if s.kind == 'module':
                return ('G', name)
            if s.has(s.globals, name):
                return ('G', name)
            if s.has(s.nonlocals, name):
                return self.resolve(name, s)
            if s.has(s.binds, name):
                return ('L', s, name)
        return ('G', name)

    def binding(self, occ):
        return self.resolve(occ.name, occ.scope)

    def global_bound_names(self):
        """Names that some statement binds in the module namespace."""
        out = []
        for o in self.occ:
            if o.kind in ('store',):
                b = self.binding(o)
                if b[0] == 'G':
                    out.append(o.name)
        return out


def same_binding(a, b):
    if a[0] != b[0]:
        return False
    if a[0] == 'G' or a[0] == 'E':
        return a[1] == b[1]
    return a[1] is b[1] and a[2] == b[2]


class _Builder(object):
    def __init__(self):
        self.an = Analysis()

    # ------------------------------------------------------------------------------------------------------
    def new_scope(self, node, kind, parent):
        s = Scope(node, kind, parent)
        self.an.scopes.append(s)
        return s

    def occ(self, node, field, index, name, kind, scope):
        self.an.occ.append(Occurrence(node, field, index, name, kind, scope))

    def bind(self, scope, name):
        if scope.has(scope.globals, name) or scope.has(scope.nonlocals, name):
            pass
        if not scope.has(scope.binds, name):
            scope.binds.append(name)
        if not scope.has(scope.uses_before_decl, name):
            scope.uses_before_decl.append(name)

    def use(self, scope, name):
        if not scope.has(scope.uses_before_decl, name):
            scope.uses_before_decl.append(name)

    def err(self, msg):
        self.an.errors.append(msg)

    # ------------------------------------------------------------------------------------------------------
    def run(self, tree):
        mod = self.new_scope(tree, 'module', None)
        self.an.module = mod
        for st in tree.body:
            self.stmt(st, mod)
        # post checks that need the whole scope
        for s in self.an.scopes:
            for n in s.nonlocals:
                if s.kind == 'module':
                    self.err('nonlocal declaration not allowed at module level')
                    continue
                if s.has(s.globals, n):
                    self.err('name is nonlocal and global')
                if s.has(s.params, n):
                    self.err('name is parameter and nonlocal')
                r = self.an.resolve(n, s)
                if r[0] == 'E':
                    self.err('no binding for nonlocal found')
            for n in s.globals:
                if s.has(s.params, n):
                    self.err('name is parameter and global')
            for n in s.annotated:
                if s.has(s.globals, n) or s.has(s.nonlocals, n):
                    self.err('annotated name cannot be global/nonlocal')
        return self.an

    # -- statements ----------------------------------------------------------------------------------------
    def body(self, stmts, scope):
        for st in stmts:
            self.stmt(st, scope)

    def stmt(self, st, scope):
        t = type(st)
        if t in (ast.FunctionDef, ast.AsyncFunctionDef):
            for d in st.decorator_list:
                self.expr(d, scope)
            self.arguments_outer(st.args, scope)
            if st.returns is not None:
                self.expr(st.returns, scope)
            if getattr(st, 'type_params', None):
                self.err('type parameters are outside R-scope')
            self.occ(st, 'name', None, st.name, 'store', scope)
            self.bind(scope, st.name)
            fs = self.new_scope(st, 'function', scope)
            self.arguments_inner(st.args, fs)
            self.body(st.body, fs)
        elif t is ast.ClassDef:
            for d in st.decorator_list:
                self.expr(d, scope)
            for b in st.bases:
                self.expr(b, scope)
            for k in st.keywords:
                self.expr(k.value, scope)
            if getattr(st, 'type_params', None):
                self.err('type parameters are outside R-scope')
            self.occ(st, 'name', None, st.name, 'store', scope)
            self.bind(scope, st.name)
            cs = self.new_scope(st, 'class', scope)
            self.body(st.body, cs)
        elif t is ast.Return:
            if st.value is not None:
                self.expr(st.value, scope)
        elif t is ast.Delete:
            for x in st.targets:
                self.target(x, scope)
        elif t is ast.Assign:
            self.expr(st.value, scope)
            for x in st.targets:
                self.target(x, scope)
        elif t is ast.AugAssign:
            # target is both read and written
            self.target(st.target, scope)
            self.expr(st.value, scope)
        elif t is ast.AnnAssign:
            if isinstance(st.target, ast.Name):
                if scope.has(scope.globals, st.target.id) or scope.has(scope.nonlocals, st.target.id):
                    self.err('annotated name cannot be global/nonlocal')
                scope.annotated.append(st.target.id)
                self.target(st.target, scope)
            else:
                self.target(st.target, scope)
            self.expr(st.annotation, scope)
            if st.value is not None:
                self.expr(st.value, scope)
        elif t in (ast.For, ast.AsyncFor):
            self.expr(st.iter, scope)
            self.target(st.target, scope)
            self.body(st.body, scope)
            self.body(st.orelse, scope)
        elif t is ast.While:
            self.expr(st.test, scope)
            self.body(st.body, scope)
            self.body(st.orelse, scope)
        elif t is ast.If:
            self.expr(st.test, scope)
            self.body(st.body, scope)
            self.body(st.orelse, scope)
        elif t in (ast.With, ast.AsyncWith):
            for it in st.items:
                self.expr(it.context_expr, scope)
                if it.optional_vars is not None:
                    self.target(it.optional_vars, scope)
            self.body(st.body, scope)
        elif t is ast.Raise:
            if st.exc is not None:
                self.expr(st.exc, scope)
            if st.cause is not None:
                self.expr(st.cause, scope)
        elif t in (ast.Try, getattr(ast, 'TryStar', ast.Try)):
            self.body(st.body, scope)
            for h in st.handlers:
                if h.type is not None:
                    self.expr(h.type, scope)
                if h.name is not None:
                    self.occ(h, 'name', None, h.name, 'store', scope)
                    self.bind(scope, h.name)
                self.body(h.body, scope)
            self.body(st.orelse, scope)
            self.body(st.finalbody, scope)
        elif t is ast.Assert:
            self.expr(st.test, scope)
            if st.msg is not None:
                self.expr(st.msg, scope)
        elif t is ast.Import:
            for a in st.names:
                self.alias(a, scope, False)
        elif t is ast.ImportFrom:
            for a in st.names:
                if a.name == '*':
                    if scope.kind != 'module':
                        self.err('import * only allowed at module level')
                    continue
                self.alias(a, scope, True)
        elif t is ast.Global:
            for i, n in enumerate(st.names):
                if scope.has(scope.uses_before_decl, n):
                    self.err('name used/assigned prior to global declaration')
                if scope.has(scope.nonlocals, n):
                    self.err('name is nonlocal and global')
                if not scope.has(scope.globals, n):
                    scope.globals.append(n)
                self.occ(st, 'names', i, n, 'decl', scope)
        elif t is ast.Nonlocal:
            for i, n in enumerate(st.names):
                if scope.has(scope.uses_before_decl, n):
                    self.err('name used/assigned prior to nonlocal declaration')
                if scope.has(scope.globals, n):
                    self.err('name is nonlocal and global')
                if not scope.has(scope.nonlocals, n):
                    scope.nonlocals.append(n)
                self.occ(st, 'names', i, n, 'decl', scope)
        elif t is ast.Expr:
            self.expr(st.value, scope)
        elif t in (ast.Pass, ast.Break, ast.Continue):
            pass
        elif t is getattr(ast, 'Match', None):
            self.expr(st.subject, scope)
            for c in st.cases:
                self.pattern_names(c.pattern)
                self.pattern(c.pattern, scope)
                if c.guard is not None:
                    self.expr(c.guard, scope)
                self.body(c.body, scope)
        else:
            self.err('statement %s is outside R-scope' % t.__name__)

    def alias(self, a, scope, is_from):
        if a.asname is not None:
            self.occ(a, 'asname', None, a.asname, 'store', scope)
            self.bind(scope, a.asname)
        else:
            # `import a.b` binds a; the occurrence is the whole dotted name (its root is what counts)
            root = a.name
            if not is_from:
                i = 0
                n = len(a.name)
                while i < n and a.name[i] != '.':
                    i += 1
                root = a.name[:i]
            self.occ(a, 'name', None, root, 'store', scope)
            self.bind(scope, root)

    def target(self, x, scope):
        self.expr(x, scope)

    def pattern_names(self, p):
        """Capture names of a pattern; reports duplicate captures and alternatives that bind different names."""
        t = type(p)
        names = []
        subs = []
        if t is ast.MatchSequence:
            subs = list(p.patterns)
        elif t is ast.MatchMapping:
            subs = list(p.patterns)
            if p.rest is not None:
                names.append(p.rest)
        elif t is ast.MatchClass:
            subs = list(p.patterns) + list(p.kwd_patterns)
        elif t is ast.MatchStar:
            if p.name is not None:
                names.append(p.name)
        elif t is ast.MatchAs:
            if p.pattern is not None:
                subs = [p.pattern]
            if p.name is not None:
                names.append(p.name)
        elif t is ast.MatchOr:
            first = None
            for q in p.patterns:
                qn = self.pattern_names(q)
                if first is None:
                    first = qn
                else:
                    same = len(first) == len(qn)
                    for a in first:
                        if not self._in(a, qn):
                            same = False
                    if not same:
                        self.err('alternative patterns bind different names')
            return list(first or [])
        for q in subs:
            for nm in self.pattern_names(q):
                if self._in(nm, names):
                    self.err('multiple assignments to name in pattern')
                names.append(nm)
        # a name captured directly twice at this level
        for i in range(len(names)):
            for j in range(i + 1, len(names)):
                if names[i] == names[j]:
                    self.err('multiple assignments to name in pattern')
        return names

    def _in(self, name, lst):
        for x in lst:
            if x == name:
                return True
        return False

    def pattern(self, p, scope):
        t = type(p)
        if t is ast.MatchValue:
            self.expr(p.value, scope)
        elif t is ast.MatchSingleton:
            pass
        elif t is ast.MatchSequence:
            for q in p.patterns:
                self.pattern(q, scope)
        elif t is ast.MatchMapping:
            for k in p.keys:
                self.expr(k, scope)
            for q in p.patterns:
                self.pattern(q, scope)
            if p.rest is not None:
                self.occ(p, 'rest', None, p.rest, 'store', scope)
                self.bind(scope, p.rest)
        elif t is ast.MatchClass:
            self.expr(p.cls, scope)
            for q in p.patterns:
                self.pattern(q, scope)
            for q in p.kwd_patterns:
                self.pattern(q, scope)
        elif t is ast.MatchStar:
            if p.name is not None:
                self.occ(p, 'name', None, p.name, 'store', scope)
                self.bind(scope, p.name)
        elif t is ast.MatchAs:
            if p.pattern is not None:
                self.pattern(p.pattern, scope)
            if p.name is not None:
                self.occ(p, 'name', None, p.name, 'store', scope)
                self.bind(scope, p.name)
        elif t is ast.MatchOr:
            for q in p.patterns:
                self.pattern(q, scope)

    # -- function signatures ---------------------------------------------------------------------------------
    def arguments_outer(self, args, scope):
        for d in args.defaults:
            self.expr(d, scope)
        for d in args.kw_defaults:
            if d is not None:
                self.expr(d, scope)
        for a in args.posonlyargs + args.args + args.kwonlyargs + ([args.vararg] if args.vararg else []) + ([args.kwarg] if args.kwarg else []):
            if a.annotation is not None:
                self.expr(a.annotation, scope)

    def arguments_inner(self, args, fs):
        for a in args.posonlyargs + args.args + ([args.vararg] if args.vararg else []) + args.kwonlyargs + ([args.kwarg] if args.kwarg else []):
            if fs.has(fs.params, a.arg):
                self.err('duplicate argument in function definition')
            fs.params.append(a.arg)
            self.occ(a, 'arg', None, a.arg, 'store', fs)
            self.bind(fs, a.arg)

    # -- expressions ---------------------------------------------------------------------------------------
    def expr(self, e, scope):
        t = type(e)
        if t is ast.Name:
            if isinstance(e.ctx, ast.Load):
                self.occ(e, 'id', None, e.id, 'load', scope)
                self.use(scope, e.id)
            else:
                self.occ(e, 'id', None, e.id, 'store', scope)
                self.bind(scope, e.id)
        elif t is ast.Lambda:
            self.arguments_outer(e.args, scope)
            fs = self.new_scope(e, 'function', scope)
            self.arguments_inner(e.args, fs)
            self.expr(e.body, fs)
        elif t in (ast.ListComp, ast.SetComp, ast.GeneratorExp, ast.DictComp):
            # the first iterable is evaluated in the enclosing scope, before the comprehension scope exists
            self.expr(e.generators[0].iter, scope)
            cs = self.new_scope(e, 'comp', scope)
            first = True
            for g in e.generators:
                if first:
                    first = False
                else:
                    self.expr(g.iter, cs)
                self.comp_target(g.target, cs)
                for i in g.ifs:
                    self.expr(i, cs)
            if t is ast.DictComp:
                self.expr(e.key, cs)
                self.expr(e.value, cs)
            else:
                self.expr(e.elt, cs)
        elif t is ast.NamedExpr:
            self.expr(e.value, scope)
            # the target binds in the nearest enclosing scope that is not a comprehension
            s = scope
            through_comp = False
            while s.kind == 'comp':
                if s.has(s.comp_iter_vars, e.target.id):
                    self.err('assignment expression cannot rebind comprehension iteration variable')
                through_comp = True
                s = s.parent
            if through_comp and s.kind == 'class':
                self.err('assignment expression within a comprehension cannot be used in a class body')
            self.occ(e.target, 'id', None, e.target.id, 'store', s)
            self.bind(s, e.target.id)
            if through_comp:
                # inside the comprehension the name refers to the enclosing scope's variable (implicit nonlocal/global)
                sc = scope
                while sc.kind == 'comp':
                    if s.kind == 'module':
                        if not sc.has(sc.globals, e.target.id):
                            sc.globals.append(e.target.id)
                    else:
                        if not sc.has(sc.nonlocals, e.target.id):
                            sc.nonlocals.append(e.target.id)
                    sc = sc.parent
        elif isinstance(e, ast.AST):
            for ch in ast.iter_child_nodes(e):
                if isinstance(ch, (ast.expr_context, ast.operator, ast.unaryop, ast.boolop, ast.cmpop)):
                    continue
                if isinstance(ch, ast.keyword):
                    self.expr(ch.value, scope)
                elif isinstance(ch, ast.expr):
                    self.expr(ch, scope)
                elif isinstance(ch, (ast.comprehension, ast.arguments, ast.arg)):
                    self.err('unexpected node')
                else:
                    self.expr(ch, scope)

    def comp_target(self, tgt, cs):
        if isinstance(tgt, ast.Name):
            cs.comp_iter_vars.append(tgt.id)
            self.occ(tgt, 'id', None, tgt.id, 'store', cs)
            self.bind(cs, tgt.id)
        elif isinstance(tgt, (ast.Tuple, ast.List)):
            for x in tgt.elts:
                self.comp_target(x, cs)
        elif isinstance(tgt, ast.Starred):
            self.comp_target(tgt.value, cs)
        else:
            self.expr(tgt, cs)


def analyse(tree):
    return _Builder().run(tree)


def compilable(tree):
    return analyse(tree).errors == []
