"""R-lit: reference recogniser / decoder for "closed literal" source text (C02e, C08b, C12).

decode_literal_sequence(text) implements, independently of python_minifier and without eval/compile, what
CPython does with a source text that consists only of string or bytes literal tokens (implicit concatenation):
newline normalisation, prefixes, the four quote styles, every escape sequence.  It works on CrossHair symbolic
strings (plain character comparisons only).

Outcomes mirror eval(text):
  returns ('str', value) / ('bytes', value)          the text is a closed literal expression with that value
  raises LitSyntaxError                                CPython would refuse to compile the text (nothing is executed)
  raises UnicodeEncodeError                            lone surrogate in the text (eval encodes the source as UTF-8 first)
  raises NotClosedLiteral                              the text contains a token that is not a string/bytes literal:
                                                       it might be executable code -> a C12 violation
"""
import unicodedata


class LitSyntaxError(SyntaxError):
    pass


class NotClosedLiteral(Exception):
    pass


_SIMPLE = {'\\': 0x5c, "'": 0x27, '"': 0x22, 'a': 7, 'b': 8, 'f': 12, 'n': 10, 'r': 13, 't': 9, 'v': 11}
_HEX = '0123456789abcdefABCDEF'
_OCT = '01234567'


def _hexval(c):
    o = ord(c)
    if 48 <= o <= 57:
        return o - 48
    if 97 <= o <= 102:
        return o - 87
    if 65 <= o <= 70:
        return o - 55
    return -1


def decode_literal_sequence(text):
    n = len(text)
    # eval(str): the source is encoded as UTF-8 first, NUL is refused, newlines are normalised
    i = 0
    while i < n:
        o = ord(text[i])
        if 0xD800 <= o <= 0xDFFF:
            raise UnicodeEncodeError('utf-8', '\ud800', 0, 1, 'surrogates not allowed')
        i += 1
    i = 0
    while i < n:
        if ord(text[i]) == 0:
            raise LitSyntaxError('source code string cannot contain null bytes')
        i += 1
    kind = None
    out_s = []
    out_b = []
    i = 0
    ntok = 0
    while True:
        # whitespace between tokens (eval strips leading blanks; newlines end the expression unless inside a literal)
        while i < n and (text[i] == ' ' or text[i] == '\t' or text[i] == '\x0c'):
            i += 1
        if i >= n:
            break
        # trailing newline(s) are allowed after the last token
        if text[i] == '\n' or text[i] == '\r':
            j = i
            while j < n and (text[j] == '\n' or text[j] == '\r'):
                j += 1
            if j >= n and ntok > 0:
                break
            raise NotClosedLiteral('newline between tokens at %d' % i)
        # prefix
        is_bytes = False
        is_raw = False
        k = i
        while k < n and k - i < 2 and text[k] in 'bBrRuU':
            c = text[k]
            if c == 'b' or c == 'B':
                if is_bytes:
                    raise NotClosedLiteral('bad prefix')
                is_bytes = True
            elif c == 'r' or c == 'R':
                if is_raw:
                    raise NotClosedLiteral('bad prefix')
                is_raw = True
            else:
                if k != i:
                    raise NotClosedLiteral('bad prefix')
                k += 1
                break
            k += 1
        if k >= n or (text[k] != "'" and text[k] != '"'):
            raise NotClosedLiteral('token that is not a string/bytes literal at offset %d' % i)
        q = text[k]
        triple = k + 2 < n and text[k + 1] == q and text[k + 2] == q
        if triple:
            k += 3
        else:
            k += 1
        tok_kind = 'bytes' if is_bytes else 'str'
        if kind is None:
            kind = tok_kind
        elif kind != tok_kind:
            raise LitSyntaxError('cannot mix bytes and nonbytes literals')
        # body
        closed = False
        while k < n:
            c = text[k]
            if c == q:
                if not triple:
                    closed = True
                    k += 1
                    break
                if k + 2 < n and text[k + 1] == q and text[k + 2] == q:
                    closed = True
                    k += 3
                    break
                _emit(out_s, out_b, is_bytes, ord(c))
                k += 1
                continue
            if c == '\n' or c == '\r':
                if not triple:
                    raise LitSyntaxError('unterminated string literal')
                # universal newlines: \r\n and \r become \n
                if c == '\r' and k + 1 < n and text[k + 1] == '\n':
                    k += 1
                _emit(out_s, out_b, is_bytes, 10)
                k += 1
                continue
            if c != '\\':
                o = ord(c)
                if is_bytes and o > 127:
                    raise LitSyntaxError('bytes can only contain ASCII literal characters')
                _emit(out_s, out_b, is_bytes, o)
                k += 1
                continue
            # backslash
            if k + 1 >= n:
                raise LitSyntaxError('unterminated string literal')
            e = text[k + 1]
            if is_raw:
                # raw: backslash kept, next character (even a quote) taken literally
                _emit(out_s, out_b, is_bytes, 0x5c)
                if e == '\r' and k + 2 < n and text[k + 2] == '\n':
                    _emit(out_s, out_b, is_bytes, 10)
                    k += 3
                    continue
                oe = ord(e)
                if e == '\r':
                    oe = 10
                if (e == '\n' or e == '\r') and not triple:
                    raise LitSyntaxError('unterminated string literal')
                if is_bytes and oe > 127:
                    raise LitSyntaxError('bytes can only contain ASCII literal characters')
                _emit(out_s, out_b, is_bytes, oe)
                k += 2
                continue
            if e == '\n':
                k += 2
                continue
            if e == '\r':
                k += 3 if (k + 2 < n and text[k + 2] == '\n') else 2
                continue
            if e in _SIMPLE:
                _emit(out_s, out_b, is_bytes, _SIMPLE[e])
                k += 2
                continue
            if e in _OCT:
                v = 0
                m = k + 1
                cnt = 0
                while m < n and cnt < 3 and text[m] in _OCT:
                    v = v * 8 + (ord(text[m]) - 48)
                    m += 1
                    cnt += 1
                if is_bytes:
                    v = v & 0xff   # CPython: SyntaxWarning only, value taken modulo 256
                _emit(out_s, out_b, is_bytes, v)
                k = m
                continue
            if e == 'x':
                if k + 3 >= n:
                    raise LitSyntaxError('truncated \\x escape')
                h1 = _hexval(text[k + 2])
                h2 = _hexval(text[k + 3])
                if h1 < 0 or h2 < 0:
                    raise LitSyntaxError('invalid \\x escape')
                _emit(out_s, out_b, is_bytes, h1 * 16 + h2)
                k += 4
                continue
            if not is_bytes and (e == 'u' or e == 'U'):
                width = 4 if e == 'u' else 8
                if k + 1 + width >= n:
                    raise LitSyntaxError('truncated \\u escape')
                v = 0
                for m in range(k + 2, k + 2 + width):
                    h = _hexval(text[m])
                    if h < 0:
                        raise LitSyntaxError('invalid \\u escape')
                    v = v * 16 + h
                if v > 0x10FFFF:
                    raise LitSyntaxError('illegal Unicode character')
                _emit(out_s, out_b, False, v)
                k += 2 + width
                continue
            if not is_bytes and e == 'N':
                if k + 2 >= n or text[k + 2] != '{':
                    raise LitSyntaxError('malformed \\N escape')
                m = k + 3
                while m < n and text[m] != '}':
                    m += 1
                if m >= n:
                    raise LitSyntaxError('malformed \\N escape')
                try:
                    ch = unicodedata.lookup(str(text[k + 3:m]))
                except KeyError:
                    raise LitSyntaxError('unknown Unicode character name')
                _emit(out_s, out_b, False, ord(ch))
                k = m + 1
                continue
            # unknown escape: backslash stays
            _emit(out_s, out_b, is_bytes, 0x5c)
            oe = ord(e)
            if is_bytes and oe > 127:
                raise LitSyntaxError('bytes can only contain ASCII literal characters')
            _emit(out_s, out_b, is_bytes, oe)
            k += 2
        if not closed:
            raise LitSyntaxError('unterminated string literal')
        ntok += 1
        i = k
    if ntok == 0:
        raise LitSyntaxError('empty expression')
    if kind == 'bytes':
        return ('bytes', bytes(out_b))
    return ('str', ''.join(out_s))


def _emit(out_s, out_b, is_bytes, code):
    if is_bytes:
        out_b.append(code)
    else:
        out_s.append(chr(code))


def eval_literal_text(text):
    """Drop-in for eval() at the string/bytes sites: value, or the exception eval would raise, or NotClosedLiteral."""
    kind, value = decode_literal_sequence(text)
    return value


# ---------------------------------------------------------------------------------------------------------------
# closed arithmetic over number / boolean / None literals (constant folding site); concrete text only
import ast as _ast
import operator as _op

_BIN = {_ast.Add: _op.add, _ast.Sub: _op.sub, _ast.Mult: _op.mul, _ast.Div: _op.truediv, _ast.FloorDiv: _op.floordiv,
        _ast.Mod: _op.mod, _ast.Pow: _op.pow, _ast.LShift: _op.lshift, _ast.RShift: _op.rshift, _ast.BitOr: _op.or_,
        _ast.BitXor: _op.xor, _ast.BitAnd: _op.and_, _ast.MatMult: _op.matmul}
_UN = {_ast.UAdd: _op.pos, _ast.USub: _op.neg, _ast.Invert: _op.invert, _ast.Not: _op.not_}


def eval_closed_arith(text):
    """Value of a closed arithmetic expression, evaluated structurally (no eval); NotClosedLiteral if anything else."""
    try:
        tree = _ast.parse(text, mode='eval')
    except SyntaxError as e:
        raise LitSyntaxError(str(e))

    def ev(node):
        if isinstance(node, _ast.Constant) and (node.value is None or isinstance(node.value, (bool, int, float, complex))):
            return node.value
        if isinstance(node, _ast.BinOp) and type(node.op) in _BIN:
            return _BIN[type(node.op)](ev(node.left), ev(node.right))
        if isinstance(node, _ast.UnaryOp) and type(node.op) in _UN:
            return _UN[type(node.op)](ev(node.operand))
        raise NotClosedLiteral('node %s in evaluated text %r' % (type(node).__name__, text))

    return ev(tree.body)
