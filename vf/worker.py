"""One CrossHair obligation (= one harness function + optional shard precondition) per process.

Usage: worker.py <harness-module-file> <function> <json-spec>
  spec = {"extra_pre": [...], "timeout": seconds, "per_path_timeout": seconds|null}
Prints one JSON object on the last stdout line (prefix RESULT:).

The real code under /repo/src is what executes; CrossHair (z3) decides each path.
"""
import sys, os, json, time, importlib.util, traceback

def load_module(path):
    name = 'vh_' + os.path.splitext(os.path.basename(path))[0]
    spec = importlib.util.spec_from_file_location(name, path)
    mod = importlib.util.module_from_spec(spec)
    sys.modules[name] = mod
    spec.loader.exec_module(mod)
    return mod

def main():
    path, fn_name, spec_json = sys.argv[1:4]
    spec = json.loads(spec_json)
    here = os.path.dirname(os.path.abspath(__file__))
    sys.path.insert(0, os.path.dirname(here))
    t0 = time.time()

    import z3
    solver_stats = {'queries': 0, 'time': 0.0, 'unknown': 0}
    _orig_check = z3.Solver.check
    def _check(self, *a):
        t = time.perf_counter()
        r = _orig_check(self, *a)
        solver_stats['time'] += time.perf_counter() - t
        solver_stats['queries'] += 1
        if r == z3.unknown:
            solver_stats['unknown'] += 1
        return r
    z3.Solver.check = _check

    import crosshair.core as core
    import crosshair.core_and_libs  # noqa: registers library contracts
    from crosshair.options import AnalysisOptionSet, AnalysisKind, DEFAULT_OPTIONS
    from crosshair.statespace import MessageType, VerificationStatus
    from crosshair.condition_parser import condition_from_source_text, PRECONDITION
    from crosshair.fnutil import FunctionInfo, fn_globals
    from dataclasses import replace
    import collections

    # workaround plugin (part of the trusted base, see DESIGN.md 2.3)
    from vf import plugin
    plugin.install()

    # remember search roots so path statistics can be reported
    roots = []
    _RootNode = core.RootNode
    def RootNodeRec(*a, **k):
        r = _RootNode(*a, **k)
        roots.append(r)
        return r
    core.RootNode = RootNodeRec

    # capture realised counterexample arguments
    captured = []
    _mk = core.make_counterexample_message
    def mk(conditions, args, return_val=None):
        from crosshair.tracers import NoTracing
        from crosshair.core import deep_realize
        msg = _mk(conditions, args, return_val)
        try:
            with NoTracing():
                real = deep_realize(args)
                captured.append({k: repr(v) for k, v in real.arguments.items()})
        except BaseException as e:  # noqa
            captured.append({'__error__': repr(e)})
        return msg
    core.make_counterexample_message = mk

    # which functions of /repo/src were entered (sys.monitoring: near-zero overhead)
    entered = set()
    repo_src = os.path.realpath(os.environ.get('VERIF_REPO', '/repo')) + '/src/'
    try:
        mon = sys.monitoring
        TOOL = mon.PROFILER_ID
        mon.use_tool_id(TOOL, 'verif-cov')
        def on_start(code, off):
            fn = code.co_filename
            if fn.startswith(repo_src):
                entered.add(fn[len(repo_src):] + ':' + code.co_qualname)
            return mon.DISABLE
        mon.register_callback(TOOL, mon.events.PY_START, on_start)
        mon.set_events(TOOL, mon.events.PY_START)
    except Exception:
        pass

    if os.environ.get('VERIF_DEBUG'):
        from crosshair.util import set_debug
        set_debug(True)
    mod = load_module(path)
    fn = getattr(mod, fn_name)
    options = AnalysisOptionSet(
        analysis_kind=(AnalysisKind.PEP316,),
        per_condition_timeout=float(spec.get('timeout', 60)),
        report_all=True,
    )
    if spec.get('per_path_timeout'):
        options = options.overlay(AnalysisOptionSet(per_path_timeout=float(spec['per_path_timeout'])))
    checkables = core.analyze_function(fn, options)
    out = {'fn': fn_name, 'extra_pre': spec.get('extra_pre', []), 'messages': [], 'verdict': None}
    pre_src = []
    post_src = []
    msgs = []
    try:
        for c in checkables:
            if isinstance(c, core.ConditionCheckable):
                conds = c.conditions
                extra = []
                filename = conds.pre[0].filename if conds.pre else conds.post[0].filename
                for i, expr in enumerate(spec.get('extra_pre', [])):
                    extra.append(condition_from_source_text(PRECONDITION, filename, 0, expr, fn_globals(fn)))
                c.conditions = replace(conds, pre=list(conds.pre) + extra)
                c.options.stats = collections.Counter()
                pre_src = [p.expr_source for p in c.conditions.pre]
                post_src = [p.expr_source for p in c.conditions.post]
            for m in c.analyze():
                msgs.append(m)
            if isinstance(c, core.ConditionCheckable):
                out['num_paths'] = c.options.stats.get('num_paths', 0)
    except BaseException as e:  # noqa
        out['verdict'] = 'error'
        out['error'] = ''.join(traceback.format_exception_only(type(e), e)).strip()
        out['traceback'] = traceback.format_exc()[-3000:]
    states = [m.state for m in msgs]
    for m in msgs:
        out['messages'].append({'state': m.state.name, 'message': m.message[:2000], 'line': m.line,
                                'traceback': (m.traceback or '')[-2500:]})
    if out['verdict'] is None:
        if not checkables:
            out['verdict'] = 'error'; out['error'] = 'no checkable conditions found'
        elif any(s in (MessageType.POST_FAIL, MessageType.EXEC_ERR, MessageType.POST_ERR) for s in states):
            out['verdict'] = 'counterexample'
        elif any(s in (MessageType.SYNTAX_ERR, MessageType.IMPORT_ERR) for s in states):
            out['verdict'] = 'error'; out['error'] = 'syntax/import error in contract'
        elif states and all(s == MessageType.CONFIRMED for s in states):
            out['verdict'] = 'confirmed'
        elif any(s == MessageType.PRE_UNSAT for s in states):
            out['verdict'] = 'pre_unsat'
        else:
            out['verdict'] = 'unknown'
    tree = collections.Counter()
    for r in roots:
        try:
            for k, v in r.stats().items():
                tree[getattr(k, 'name', str(k))] += v
        except BaseException:  # noqa
            pass
    out['path_tree'] = dict(tree)
    out['counterexamples'] = captured
    out['pre'] = pre_src
    out['post'] = post_src
    out['solver'] = {'queries': solver_stats['queries'], 'unknown': solver_stats['unknown'],
                     'time_s': round(solver_stats['time'], 3)}
    out['entered'] = sorted(entered)
    out['wall_s'] = round(time.time() - t0, 3)
    out['cpu_s'] = round(time.process_time(), 3)
    sys.stdout.flush()
    print('RESULT:' + json.dumps(out))

if __name__ == '__main__':
    main()
