"""Replays a counterexample as plain Python (no CrossHair, no proxies) against the real code.

usage: replay.py <harness file> <function> <json {arg: repr}> [<public replay function>]
The harness convention is: the function returns True iff the property holds on the input.
"""
import sys, os, json, ast, traceback, importlib.util


def main():
    path, fn_name, args_json = sys.argv[1:4]
    public = sys.argv[4] if len(sys.argv) > 4 and sys.argv[4] else None
    sys.path.insert(0, os.path.dirname(os.path.dirname(os.path.abspath(__file__))))
    name = 'vh_' + os.path.splitext(os.path.basename(path))[0]
    spec = importlib.util.spec_from_file_location(name, path)
    mod = importlib.util.module_from_spec(spec)
    sys.modules[name] = mod
    spec.loader.exec_module(mod)
    raw = json.loads(args_json)
    args = {k: ast.literal_eval(v) for k, v in raw.items()}
    out = {'args': raw}
    try:
        r = getattr(mod, fn_name)(**args)
        out['harness_result'] = repr(r)[:500]
        out['harness_violated'] = not bool(r)
    except Exception as e:  # noqa
        out['harness_violated'] = True
        out['harness_exception'] = ''.join(traceback.format_exception_only(type(e), e)).strip()[:800]
        out['harness_traceback'] = traceback.format_exc()[-1500:]
    if hasattr(mod, 'explain'):
        try:
            out['explain'] = str(mod.explain(fn_name, args))[:2000]
        except Exception as e:  # noqa
            out['explain'] = 'explain failed: %r' % e
    if public:
        try:
            pr = getattr(mod, public)(**args)
            out['public_violated'] = bool(pr.get('violated'))
            out['public_detail'] = str(pr.get('detail'))[:2000]
        except Exception as e:  # noqa
            out['public_violated'] = None
            out['public_detail'] = 'public replay raised: ' + traceback.format_exc()[-800:]
    print('REPLAY:' + json.dumps(out))


if __name__ == '__main__':
    main()
