# one entry per property; edited as checks are built
claim('C14',
      'Bounded symbolic execution of the real main()/do_minify() with the API result, the source bytes, the output mode and the '
      'override variable symbolic: for every value in bound the bytes emitted obey the size rule. Right level: the rule is a '
      'byte-length comparison whose interesting inputs (multi-byte code points, empty source, override set to "") are rare.',
      'Trusted: CrossHair/z3 models of str/bytes/encode, the in-memory stubs for open/os/sys/parse_args (vf/clienv.py), CPython. '
      'Bound: |source| <= 3/4 bytes, |result| <= 2/3 code points; larger inputs outside the claim.',
      'CrossHair symbolic execution of main/do_minify, z3 decides each path', 'DESIGN.md 4/C14')
claim('C16',
      'Bounded symbolic execution of the real minify() shebang path (_find_shebang + re-attachment) for all text sources up to '
      '6/7 characters and all bytes shebang lines up to 3/4 bytes with three newline conventions and coding cookies.',
      'Trusted: CrossHair regex/str/bytes models, CPython decoding inside ast.parse (outside the claim). ast.parse/unparse stubbed.',
      'CrossHair symbolic execution of minify/_find_shebang, z3 decides each path', 'DESIGN.md 4/C16')
claim('C13',
      'Flags -> namespace for all 2^19 flag subsets is one z3 query over the action table read from the real parser object '
      '(documented table written from the docs); namespace -> minify keywords, argument validation and preserve-list '
      'splitting are bounded symbolic executions of the real do_minify/parse_args/main. Right level: the space is 2^19 and '
      'tests pass no --no-* flag at all; the solver covers every subset.',
      'Trusted: the hand model of argparse store_true/store_false/append semantics (validated every run on solver-chosen witness '
      'subsets against the real parser), the documented flag table in vf/smtq.py, CrossHair/z3, the in-memory CLI environment. '
      'Bytes written for a given API result are decided under C14.',
      'z3 query over the real argparse table + CrossHair symbolic execution of do_minify/parse_args/main', 'DESIGN.md 4/C13')
claim('C15',
      'Bounded symbolic execution of the real main()/source_modules() over an in-memory tree whose file names are symbolic '
      'strings, with a symbolic failure position/kind and benefit pattern: the end state of every file is its original bytes '
      'or the stub\'s minified bytes, only selected files are opened for writing, nothing after the failing file is touched. '
      'Right level: the suffix test and the failure ordering are the whole mechanism; names like ".py", "x.pyw", "a.pyc" are '
      'found by the solver, not sampled.',
      'Trusted: in-memory open/os/sys stubs (vf/clienv.py; write-open truncates, read-only raises before truncating), CrossHair/z3. '
      'do_minify is the environment here (decided under C13/C14). A crash inside f.write is outside the fault model.',
      'CrossHair symbolic execution of main/source_modules, z3 decides each path', 'DESIGN.md 4/C15')
claim('C12',
      'Every eval() site of python_minifier is rebound to a reference recogniser/decoder of closed literal text and the real '
      'quoting code (MiniString, f_string.Str/Bytes, OuterFString.str_for) and FoldConstants are executed symbolically: for every '
      'string in bound (all of Unicode; surrogates/NUL/quotes/backslashes via a stated alphabet) no text containing a token '
      'other than a literal reaches eval. A site inventory of /repo/src is recomputed each run. Right level: the inputs that '
      'could break out of the quoting are rare and adversarial; the solver searches for them instead of sampling.',
      'Trusted: R-lit (vf/rlit.py, validated every run against the CPython parser on thousands of texts), CrossHair/z3, CPython\'s '
      'ast.parse/compile (C code; parses but does not execute). Bound: |s| <= 2/3. MiniBytes is dead code (checked: no references).',
      'CrossHair symbolic execution of the quoting code with eval replaced by a closed-literal recogniser; AST site inventory', 'DESIGN.md 4/C12')
for _p in ['C02', 'C03', 'C04', 'C05', 'C06', 'C07', 'C08', 'C09', 'C10', 'C11']:
    na(_p, 'check not built yet in this revision (planned: see DESIGN.md section 4); will be claimed when its harness lands')
na('C01', 'needs the run-time semantics of arbitrary modules (observational equivalence of two program runs); nothing a solver can '
          'encode - the mechanisms behind it are decided under C02-C09 (DESIGN.md 4/C01)')
na('C17', 'quantifies over a pinned corpus of concrete real-world files (none present offline); the only symbolic lemma available is '
          'strictly stronger than the property and false (DESIGN.md 4/C17)')
