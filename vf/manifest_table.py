# one entry per property; edited as checks are built
claim('C14',
      'Bounded symbolic execution of the real main()/do_minify() with the API result, the source bytes, the output mode and the '
      'override variable symbolic: for every value in bound the bytes emitted obey the size rule. Right level: the rule is a '
      'byte-length comparison whose interesting inputs (multi-byte code points, empty source, override set to "") are rare.',
      'Trusted: CrossHair/z3 models of str/bytes/encode, the in-memory stubs for open/os/sys/parse_args (vf/clienv.py), CPython. '
      'Bound: |source| <= 3/4 bytes, |result| <= 2/3 code points; one run over up to three files (two byte-identical); larger inputs outside.',
      'CrossHair symbolic execution of main/do_minify, z3 decides each path', 'DESIGN.md 4/C14')
claim('C16',
      'Bounded symbolic execution of the real minify() shebang path (_find_shebang, _source_encoding, re-attachment) for all text sources '
      'up to 6/7 characters and all bytes shebang lines up to 3/4 bytes with three newline conventions and coding cookies; the CLI hands '
      'exactly the bytes it read to the API and writes the result as UTF-8 (C16c, symbolic source bytes); C16d enumerates a cookie inside '
      'the shebang line through the real parser (open known finding F16).',
      'Trusted: CrossHair regex/str/bytes models, CPython decoding inside ast.parse (outside the claim; C16d runs it concretely). '
      'ast.parse/unparse stubbed in C16a/b.',
      'CrossHair symbolic execution of minify/_find_shebang/do_minify, z3 decides each path', 'DESIGN.md 4/C16, 8.4')
claim('C13',
      'Flags -> namespace for all 2^19 flag subsets is one z3 query over the action table read from the real parser object '
      '(documented table written from the docs); namespace -> minify keywords, argument validation and preserve-list '
      'splitting are bounded symbolic executions of the real do_minify/parse_args/main. Right level: the space is 2^19 and '
      'tests pass no --no-* flag at all; the solver covers every subset.',
      'Trusted: the hand model of argparse store_true/store_false/append semantics (validated every run on solver-chosen witness '
      'subsets against the real parser), the documented flag table in vf/smtq.py, CrossHair/z3, the in-memory CLI environment. '
      'Bytes written for a given API result are decided under C14.',
      'z3 query over the real argparse table + CrossHair symbolic execution of do_minify/parse_args/main', 'DESIGN.md 4/C13')
claim('C15',
      'Bounded symbolic execution of the real main()/source_modules() over an in-memory tree whose file names are symbolic '
      'strings, with a symbolic failure position/kind and benefit pattern: the end state of every file is its original bytes '
      'or the stub\'s minified bytes, only selected files are opened for writing, nothing after the failing file is touched. '
      'Right level: the suffix test and the failure ordering are the whole mechanism; names like ".py", "x.pyw", "a.pyc" are '
      'found by the solver, not sampled.',
      'Trusted: in-memory open/os/sys stubs (vf/clienv.py; write-open truncates, read-only raises before truncating), CrossHair/z3. '
      'do_minify is the environment here (decided under C13/C14). A crash inside f.write is outside the fault model.',
      'CrossHair symbolic execution of main/source_modules, z3 decides each path', 'DESIGN.md 4/C15')
claim('C12',
      'Every eval() site of python_minifier is rebound to a reference recogniser/decoder of closed literal text and the real '
      'quoting code (MiniString, f_string.Str/Bytes, OuterFString.str_for) and FoldConstants are executed symbolically: for every '
      'string in bound (all of Unicode; surrogates/NUL/quotes/backslashes via a stated alphabet) no text containing a token '
      'other than a literal reaches eval. A site inventory of /repo/src is recomputed each run. Right level: the inputs that '
      'could break out of the quoting are rare and adversarial; the solver searches for them instead of sampling.',
      'Trusted: R-lit (vf/rlit.py, validated every run against the CPython parser on thousands of texts), CrossHair/z3, CPython\'s '
      'ast.parse/compile (C code; parses but does not execute). Bound: |s| <= 2/3. MiniBytes is dead code (checked: no references).',
      'CrossHair symbolic execution of the quoting code with eval replaced by a closed-literal recogniser; AST site inventory', 'DESIGN.md 4/C12')
claim('C02',
      'Bounded symbolic execution of the real printers: every expression slot x child kind (depth 2; depth 3 in thorough) and every '
      'statement template of a bounded grammar is printed by the real unparse()/minify(all off) and re-parsed by CPython, compared '
      'type- and sign-exactly (ast.dump); numeric constants incl. inf, 2**64, imaginary in 15 contexts; string/bytes bodies of '
      'MiniString, OuterFString.str_for, f_string.Str/Bytes for all strings in bound against a reference literal decoder. Right '
      'level: the unparse self-check compares constants with == (1 == 1.0 == True) and tests pin a few dozen snippets.',
      'Trusted: CPython ast.parse/unparse/dump, CrossHair/z3, R-lit (validated each run). Bounds: grammar leaves are concrete; strings '
      '|s| <= 2/3; 3.11 only in thorough. Token adjacency with symbolic token texts (C02c) not built.',
      'CrossHair symbolic execution of ExpressionPrinter/ModulePrinter/f_string/ministring; CPython parser as oracle', 'DESIGN.md 4/C02, 8.3')
claim('C03',
      'The real bind/resolve/rename/hoist pipeline runs on scope skeletons whose identifiers are symbolic strings; an independent '
      'implementation of CPython scoping (R-scope) decides, for every spelling of the names, that the partition of identifier '
      'occurrences into bindings is unchanged, free/builtin references are not captured, inserted statements are well-formed alias '
      'definitions and the result is compilable. Right level: the failing inputs are name coincidences (a variable called A, two holes '
      'equal, a hole equal to a builtin) that no test samples; the solver enumerates the equality classes.',
      'Trusted: R-scope (validated against symtable on the stdlib), CrossHair/z3, the 13-name builtin stub, hash/repr stubs in '
      'rename_literals, deterministic AST hash. Bounds: 44 scope skeletons, 3 symbolic names of length 1 and 3 (quick: every skeleton, one option combination per length rotating with the seed, third name pinned for length 3; thorough: two option combinations, all names free).',
      'CrossHair symbolic execution of the rename pipeline with symbolic identifiers; reference scope resolver as oracle', 'DESIGN.md 4/C03, 8.3')
claim('C04',
      'Same pipeline and symbolic identifiers as C03; the postcondition is that attribute names, keyword-argument names, import names, '
      'class-body names, keyword-passable parameters, dunder names and unbound names keep their spelling, and that module-level names '
      'are unchanged / underscore-prefixed when rename_globals is off; plus the arg_rename_in_place kernel with symbolic decorator and '
      'parameter names.',
      'Trusted: as C03. Bounds: 44 skeletons (quick: walrus_nested_module + a seeded rotation of 9), names of length 1/3; decorator |dec| <= 11.',
      'CrossHair symbolic execution of the rename pipeline and of rename/util.arg_rename_in_place', 'DESIGN.md 4/C04, 8.3')
claim('C05',
      'Each real transformer is run alone on small neighbourhoods whose shape is a structure parameter and whose names/constants are '
      'symbolic, and compared structurally with a reference implementation of the documented rewrite; the gating obligation runs the '
      'real minify() with every stage replaced by a recorder for all option vectors (x tainted).',
      'Trusted: the reference rewrites (harness/transkern.py, written from docs/source/transforms/*.rst), CrossHair/z3. '
      '"Bisimilar compiled code" is replaced by structural equality with the reference; composition beyond stage order is outside.',
      'CrossHair symbolic execution of the transformer classes and of minify() option gating', 'DESIGN.md 4/C05, 8.2')
claim('C06',
      'The real hoisting pipeline on skeletons with literals in every position the property names, identifiers symbolic: every alias '
      'definition is the first statement (after docstrings/__future__ imports) of a function or module body that encloses all uses '
      '(R-scope), has the identical type and value, is defined once and never collides; no literal in a pattern, __slots__, f-string '
      'text or docstring position is replaced; plus the insert() kernel with a symbolic module name.',
      'Trusted: as C03. Literal values are concrete per skeleton (type/equality pattern is what the code inspects).',
      'CrossHair symbolic execution of rename_literals/rename/util.insert', 'DESIGN.md 4/C06, 8.2')
claim('C07',
      'fold_int: the real visit_BinOp decision logic for all ints 0 <= a,b < 10^6 and 13 operators with printing/evaluation replaced by '
      'structural models (z3 integer arithmetic decides value/type/sign equality); fold_pairs / fold_nested / number_print: real printer '
      'and real evaluation over representative literals of every numeric type, type-variant pairs in one module, 15 syntactic contexts.',
      'Trusted: operator.* as reference semantics, the digit-count length model (fold_int), CPython eval on closed arithmetic text. '
      'Float/complex operands are representatives, not symbolic.',
      'CrossHair symbolic execution of FoldConstants.visit_BinOp (symbolic ints) + exhaustive forking over representative literals', 'DESIGN.md 4/C07, 8.2')
claim('C08',
      'Totality: the bounded grammar x option vectors through the real minify() with compile() as oracle; TokenPrinter.integer for every '
      'digit count (repr stubbed by its ValueError contract); nested f-string str/bytes printers for all strings in bound; parser '
      'rejection surfaces as SyntaxError under symbolic options. The known finding F09 is excluded by predicate and reported.',
      'Trusted: CPython compile(), R-lit, CrossHair/z3. Bounds as C02 plus 33 option vectors.',
      'CrossHair symbolic execution / exhaustive forking over the grammar; CPython compiler as oracle', 'DESIGN.md 4/C08, 8.4')
claim('C09',
      'Taint skeletons (exec/eval/locals/globals/vars in every position, star import, global declaration) with symbolic identifiers that '
      'may shadow the trigger; whenever R-scope says the trigger is the builtin, the captured tree has exactly the nodes and spellings '
      'of the input under all rename/hoist options.',
      'Trusted: as C03.', 'CrossHair symbolic execution of bind/resolve/minify taint handling', 'DESIGN.md 4/C09')
claim('C10',
      'Pipeline as C03 with a symbolic preserved name passed as list or bare string, literal __all__ lists with symbolic entries; every '
      'binding of that name keeps its spelling and the rest of the renaming stays binding-preserving; CLI comma splitting for all '
      'list texts in bound.',
      'Trusted: as C03 and C13. Bounds: names of length 3, lists of one name.',
      'CrossHair symbolic execution of minify preserve handling, allow_rename_*, find__all__, do_minify', 'DESIGN.md 4/C10')
claim('C11',
      '2-call histories sharing the caller\'s list objects and the default options object (symbolic names): arguments unchanged, second '
      'result equals a fresh run; set iteration order of the renamer\'s string sets as a symbolic rotation/reversal: output unchanged. '
      'Threads and real hash seeds are outside (stated).',
      'Trusted: as C03. Partly claimed: no thread interleavings, no PYTHONHASHSEED sweep, histories of length 2.',
      'CrossHair symbolic execution of two minify() calls / of the renamer with nondeterministic set order', 'DESIGN.md 4/C11')
na('C01', 'needs the run-time semantics of arbitrary modules (observational equivalence of two program runs); nothing a solver can '
          'encode - the mechanisms behind it are decided under C02-C09 (DESIGN.md 4/C01)')
na('C17', 'quantifies over a pinned corpus of concrete real-world files (none present offline); the only symbolic lemma available is '
          'strictly stronger than the property and false (DESIGN.md 4/C17)')
