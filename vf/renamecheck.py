"""Runs the real rename pipeline on a tree and evaluates the C03/C04/C06/C09/C10 oracles with R-scope.

The tree goes through the real python_minifier.minify() body (parse/unparse stubbed, builtin namespace stubbed):
add_parent -> add_namespace -> [transforms off] -> bind_names -> resolve_names -> allow_rename_* -> rename_literals ->
rename -> remove_posargs, in the order minify() runs them.
"""
import ast

import python_minifier
from vf import rscope
from vf.stubs import ALL_OFF, Capture, builtins_stubbed, pipeline, patched, mod


def _const_hash(value):
    return 0


def _len_repr(value):
    # repr() in rename_literals is only used for its length (cost model); the real one realises a symbolic string.
    # Model: a string prints as quote + characters + quote (escapes ignored: stated in the evidence).
    if isinstance(value, str):
        return "'" + value + "'"
    return repr(value)


def _role(field):
    # `import foo` -> `import foo as A` moves the bound identifier from alias.name to alias.asname
    return 'alias' if field in ('asname',) else field


def okey(o):
    if isinstance(o.node, ast.alias):
        return (id(o.node), 'alias', None)
    return (id(o.node), o.field, o.index)


class Snapshot(object):
    """Spelling of every identifier-carrying field of the tree, before the pipeline mutates it in place."""

    def __init__(self, tree):
        self.fields = []      # (node, field, index, value)
        self.stmts = []       # identity of every statement node
        self.nodes = []
        for node in ast.walk(tree):
            self.nodes.append(node)
            if isinstance(node, ast.stmt):
                self.stmts.append(node)
            for field, value in ast.iter_fields(node):
                if isinstance(value, str) and field not in ('kind',):
                    self.fields.append((node, field, None, value))
                elif isinstance(value, list) and value and isinstance(value[0], str):
                    for i, v in enumerate(value):
                        self.fields.append((node, field, i, v))
        self.dump = None

    def has_node(self, n):
        for m in self.nodes:
            if m is n:
                return True
        return False


def _untraced_fold_class():
    """FoldConstants with CrossHair's tracer switched off for the duration of the stage.  Folding only looks at literal
    operands (concrete in every skeleton); traced, its print / eval / parse round trip makes CrossHair invent symbolic
    return values and the obligation never finishes."""
    real_fold = python_minifier.FoldConstants

    class UntracedFold(object):
        def __call__(self, module):
            try:
                from crosshair.tracers import NoTracing, is_tracing
            except ImportError:
                return real_fold()(module)
            if not is_tracing():
                return real_fold()(module)
            with NoTracing():
                return real_fold()(module)

    return UntracedFold


def run_pipeline(tree, rename_locals=True, rename_globals=False, hoist_literals=True, preserve_locals=None,
                 preserve_globals=None, extra=None, stub_builtins=True):
    import contextlib
    cap = Capture()
    opts = dict(ALL_OFF)
    opts.update(rename_locals=rename_locals, rename_globals=rename_globals, hoist_literals=hoist_literals)
    if preserve_locals is not None:
        opts['preserve_locals'] = preserve_locals
    if preserve_globals is not None:
        opts['preserve_globals'] = preserve_globals
    if extra:
        opts.update(extra)
    with contextlib.ExitStack() as st:
        if stub_builtins:
            # hash() in rename_literals: a constant is a valid hash for any __eq__; the real one makes CrossHair hand a
            # symbolic int to HoistedValue.__hash__ ("proxy intolerance"); repr(): length model for the cost function
            rl_mod = mod('python_minifier.rename.rename_literals')
            st.enter_context(builtins_stubbed())
            st.enter_context(patched(rl_mod, 'hash', _const_hash))
            st.enter_context(patched(rl_mod, 'repr', _len_repr))
            if opts.get('constant_folding'):
                st.enter_context(patched(python_minifier, 'FoldConstants', _untraced_fold_class()))
        st.enter_context(pipeline(tree, capture=cap, placeholder_only=True))
        python_minifier.minify('', **opts)
    return cap.tree


class Report(object):
    pass


def _find(lst, key, same):
    for i, (k, v) in enumerate(lst):
        if same(k, key):
            return i
    return -1


def evaluate(an0, snap, after_tree, allow_removed=False):
    """Compares scoping before/after.  Returns Report with .problems (list of str)."""
    rep = Report()
    rep.problems = []
    an1 = rscope.analyse(after_tree)
    rep.an1 = an1
    if an1.errors:
        rep.problems.append('output is not compilable: %s' % an1.errors[:2])
        return rep
    before = []     # (occ0, b0)
    for o in an0.occ:
        before.append((o, an0.binding(o)))
    # after occurrences, split into original and new
    orig_keys = [okey(o) for o in an0.occ]
    after_orig = [None] * len(before)
    new_occ = []
    for o in an1.occ:
        k = okey(o)
        idx = -1
        for i, ok in enumerate(orig_keys):
            if ok == k:
                idx = i
                break
        if idx >= 0:
            after_orig[idx] = o
        else:
            new_occ.append(o)
    rep.new_occ = new_occ
    if allow_removed:
        # an enabled transform may delete expressions (annotations): their identifier occurrences simply leave the comparison
        kept = [i for i, ao in enumerate(after_orig) if ao is not None]
        before = [before[i] for i in kept]
        after_orig = [after_orig[i] for i in kept]
    for i, ao in enumerate(after_orig):
        if ao is None:
            rep.problems.append('identifier occurrence disappeared: %r' % (before[i][0].name,))
            return rep
    # inserted alias definitions: statements that were not in the input tree
    links = []      # (target binding, source binding or ('CONST', node))
    inserted = []
    for node in ast.walk(after_tree):
        for field in ('body', 'orelse', 'finalbody'):
            lst = getattr(node, field, None)
            if isinstance(lst, list):
                for st in lst:
                    if isinstance(st, ast.stmt) and not snap.has_node(st):
                        # a transform may replace a statement by a new one built from original parts (AnnAssign -> Assign);
                        # alias definitions are the new statements whose target is a new Name node
                        if isinstance(st, ast.Assign) and len(st.targets) == 1 and snap.has_node(st.targets[0]):
                            continue
                        inserted.append((node, field, st))
    rep.inserted = inserted
    for parent, field, st in inserted:
        if not (isinstance(st, ast.Assign) and len(st.targets) == 1 and isinstance(st.targets[0], ast.Name)
                and isinstance(st.value, (ast.Name, ast.Constant))):
            rep.problems.append('inserted statement is not an alias definition: %s' % ast.dump(st)[:80])
            return rep
        t_occ = None
        v_occ = None
        for o in new_occ:
            if o.node is st.targets[0]:
                t_occ = o
            if o.node is st.value:
                v_occ = o
        if t_occ is None:
            rep.problems.append('alias definition target not analysed')
            return rep
        tb = an1.binding(t_occ)
        if isinstance(st.value, ast.Name):
            if v_occ is None:
                rep.problems.append('alias definition source not analysed')
                return rep
            links.append((tb, an1.binding(v_occ), st, parent))
        else:
            links.append((tb, ('CONST', st.value), st, parent))
    rep.links = links

    def root(b, depth=0):
        if depth > 8:
            return b
        for (tb, sb, st, parent) in links:
            if rscope.same_binding(tb, b):
                if sb[0] == 'CONST':
                    return sb
                return root(sb, depth + 1)
        return b

    def same_root(a, b):
        if a[0] == 'CONST' or b[0] == 'CONST':
            return a[0] == b[0] and a[1] is b[1]
        return rscope.same_binding(a, b)

    r1 = [root(an1.binding(ao)) for ao in after_orig]
    rep.r1 = r1
    n = len(before)
    # Check C: an original identifier never becomes an alias of a literal
    for i in range(n):
        if r1[i][0] == 'CONST':
            rep.problems.append('identifier %r now denotes a hoisted literal' % (before[i][0].name,))
            return rep
    # Check A: same partition of the original occurrences
    for i in range(n):
        for j in range(i + 1, n):
            s0 = rscope.same_binding(before[i][1], before[j][1])
            s1 = same_root(r1[i], r1[j])
            if s0 != s1:
                rep.problems.append('occurrences %r/%r: same binding before=%s after=%s (after names %r/%r)' % (
                    before[i][0].name, before[j][0].name, s0, s1, after_orig[i].name, after_orig[j].name))
                return rep
    # Check B: free / builtin / unbound-global references keep their meaning
    gb0 = an0.global_bound_names()
    gb1 = an1.global_bound_names()
    for i in range(n):
        b0 = before[i][1]
        if b0[0] == 'G':
            bound0 = False
            for g in gb0:
                if g == b0[1]:
                    bound0 = True
            if not bound0:
                if not (r1[i][0] == 'G' and r1[i][1] == b0[1]):
                    rep.problems.append('free/builtin reference %r captured: now %r' % (b0[1], r1[i][:1] + r1[i][-1:]))
                    return rep
                for g in gb1:
                    if g == b0[1]:
                        rep.problems.append('free/builtin name %r is now bound at module level' % (b0[1],))
                        return rep
    # Check D: every alias definition's name is not shared with a different original binding class
    for (tb, sb, st, parent) in links:
        cls = None
        for i in range(n):
            if rscope.same_binding(an1.binding(after_orig[i]), tb):
                if sb[0] == 'CONST':
                    rep.problems.append('hoisted literal alias %r collides with an existing name' % (st.targets[0].id,))
                    return rep
                if cls is None:
                    cls = before[i][1]
                elif not rscope.same_binding(cls, before[i][1]):
                    rep.problems.append('alias %r merges two distinct bindings' % (st.targets[0].id,))
                    return rep
        # only one definition per alias among the new occurrences
        defs = 0
        for o in new_occ:
            if o.kind == 'store' and rscope.same_binding(an1.binding(o), tb):
                defs += 1
        if defs != 1:
            rep.problems.append('alias %r is defined %d times' % (st.targets[0].id, defs))
            return rep
    rep.before = before
    rep.after_orig = after_orig
    return rep


def spelling_changes(snap):
    """[(node, field, index, old, new)] for identifier fields whose spelling changed."""
    out = []
    for node, field, index, old in snap.fields:
        cur = getattr(node, field, None)
        if index is not None:
            cur = cur[index] if isinstance(cur, list) and index < len(cur) else None
        if cur != old:
            out.append((node, field, index, old, cur))
    return out
