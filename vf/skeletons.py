"""Scope skeletons S: small programs with identifier holes (DESIGN.md 2.3).

A template is Python source whose holes are the identifiers HOLEA, HOLEB, HOLEC.  instantiate(k, A, B, C) parses the
template (concrete text, cached) and substitutes the hole identifiers in a fresh copy of the tree with the given strings,
which may be CrossHair symbolic strings.  Everything else in the template is concrete.
"""
import ast
import copy

HOLES = ('HOLEA', 'HOLEB', 'HOLEC')

# (name, source)  - binding forms x reference positions
TEMPLATES = [
    ('params_and_free', 'def f(HOLEA, HOLEB):\n    return HOLEA + HOLEB + HOLEC\n'),
    ('closure', 'def f(HOLEA):\n    def g(HOLEB):\n        return HOLEA + HOLEB + HOLEC\n    return g\n'),
    ('listcomp_shadow', 'def f(HOLEA):\n    HOLEB = [HOLEA for HOLEA in HOLEC]\n    return HOLEB\n'),
    ('global_decl', 'HOLEA = 1\ndef f():\n    global HOLEA\n    HOLEA = 2\n    HOLEB = HOLEA\n    return HOLEB + HOLEC\n'),
    ('nonlocal_decl', 'def f():\n    HOLEA = 1\n    def g():\n        nonlocal HOLEA\n        HOLEA = HOLEB\n        return HOLEC\n    return g\n'),
    ('class_body', 'class K:\n    HOLEA = 1\n    def m(self, HOLEB):\n        return HOLEA + HOLEB + self.HOLEC\n'),
    ('defaults_lambda', 'def f(HOLEA=len(HOLEB)):\n    HOLEB = 1\n    return lambda HOLEC: HOLEA + HOLEB + HOLEC\n'),
    ('imports', 'import HOLEA\nimport os.path as HOLEB\nfrom m import HOLEC\ndef f():\n    return HOLEA, HOLEB, HOLEC\n'),
    ('local_imports', 'def f():\n    import HOLEA\n    import os.path as HOLEB\n    from m import HOLEC\n    return HOLEA, HOLEB, HOLEC\n'),
    ('except_as', 'def f():\n    try:\n        pass\n    except E as HOLEA:\n        HOLEB = HOLEA\n    return HOLEB + HOLEC\n'),
    ('with_for', 'def f(x):\n    with x as HOLEA, x as HOLEB:\n        for HOLEC in HOLEA:\n            yield HOLEB, HOLEC\n'),
    ('walrus_comp', 'def f(x):\n    return [(HOLEA := y) for y in x], HOLEA, HOLEB\n'),
    ('walrus_plain', 'def f(x):\n    if (HOLEA := x) and (HOLEB := HOLEA):\n        return HOLEA + HOLEB + HOLEC\n'),
    ('star_args', 'def f(*HOLEA, **HOLEB):\n    return HOLEA, HOLEB, HOLEC\n'),
    ('posonly_kwonly', 'def f(HOLEA, /, HOLEB, *, HOLEC):\n    return HOLEA + HOLEB + HOLEC\n'),
    ('match_captures', 'def f(x):\n    match x:\n        case [HOLEA, *HOLEB]:\n            return HOLEA, HOLEB\n        case {"k": HOLEA, **HOLEC}:\n            return HOLEA, HOLEC\n        case K(a=HOLEA) | HOLEA:\n            return HOLEA\n'),
    ('class_in_function', 'def f():\n    HOLEA = 1\n    class K:\n        HOLEB = HOLEA\n        def m(self):\n            return HOLEA, HOLEC\n    return K\n'),
    ('dictcomp_nested', 'def f(HOLEA):\n    return {HOLEB: HOLEC for HOLEB in HOLEA for HOLEC in HOLEB if HOLEC}\n'),
    ('decorator', 'def d(HOLEA):\n    return HOLEA\n@d\ndef HOLEB(HOLEC):\n    return HOLEB(HOLEC)\n'),
    ('module_level', 'HOLEA = 1\nHOLEB = HOLEA + 1\ndef HOLEC():\n    return HOLEA + HOLEB\n'),
    ('lambda_params', 'f = lambda HOLEA, HOLEB=1: HOLEA + HOLEB + HOLEC\n'),
    ('nested_global', 'def f():\n    def g():\n        global HOLEA\n        HOLEA = HOLEB\n    HOLEA = 3\n    return g, HOLEA, HOLEC\n'),
    ('async_forms', 'async def f(HOLEA):\n    async with HOLEA as HOLEB:\n        async for HOLEC in HOLEB:\n            await HOLEC\n    return [HOLEB async for HOLEB in HOLEA]\n'),
    ('del_local', 'def f():\n    HOLEA = 1\n    del HOLEA\n    HOLEB = 2\n    return HOLEB + HOLEC\n'),
    ('literals_and_names', 'def f():\n    HOLEA = "hello world"\n    HOLEB = "hello world"\n    return HOLEA + HOLEB + "hello world" + HOLEC + "hello world"\n'),
    ('method_self_cls', 'class K:\n    def m(HOLEA, HOLEB):\n        return HOLEA.x + HOLEB\n    @classmethod\n    def c(HOLEA, HOLEC):\n        return HOLEA, HOLEC\n    @staticmethod\n    def s(HOLEA, HOLEB):\n        return HOLEA + HOLEB\n'),
    ('genexp_class', 'class K:\n    HOLEA = [1]\n    HOLEB = list(HOLEC for HOLEC in HOLEA)\n'),
    ('kw_call_attr', 'def f(HOLEA):\n    return g(HOLEB=HOLEA, x=HOLEA.HOLEC)\n'),
    ('annotations', 'def f(HOLEA: HOLEB) -> HOLEC:\n    HOLEC: int = HOLEA\n    return HOLEC\n'),
    ('augassign_class', 'HOLEA = 0\nclass K:\n    HOLEA += 1\n    HOLEB = HOLEA\ndef f():\n    return HOLEA, HOLEC\n'),
    ('long_arg_alias', 'def f(long_argument_name, HOLEA):\n    HOLEB = long_argument_name + long_argument_name + long_argument_name + long_argument_name\n    return HOLEA + HOLEB + HOLEC + long_argument_name\n'),
    ('builtin_heavy', 'def f(HOLEA):\n    return ValueError(HOLEA), ValueError(HOLEB), ValueError(HOLEC), ValueError(1), ValueError(2), ValueError(3)\n'),
    ('two_functions', 'def f(HOLEA):\n    HOLEB = HOLEA\n    return HOLEB\ndef g(HOLEB):\n    HOLEA = HOLEB\n    return HOLEA + HOLEC\n'),
    ('try_finally_loop', 'def f(x):\n    for HOLEA in x:\n        try:\n            HOLEB = HOLEA\n        finally:\n            HOLEC = 1\n    else:\n        return HOLEB\n    return HOLEA, HOLEC\n'),
    ('nested_lambda_default', 'def f(HOLEA):\n    return lambda HOLEB=HOLEA: (lambda HOLEC=HOLEB: HOLEA + HOLEB + HOLEC)\n'),
    ('walrus_nested_comp', 'def f(x):\n    HOLEA = 0\n    HOLEB = [[(HOLEA := HOLEA + v) for v in r] for r in x]\n    return HOLEA, HOLEB, HOLEC\n'),
    ('global_two_names', 'HOLEA = 1\nHOLEB = 2\ndef f():\n    global HOLEA, HOLEB\n    HOLEA = HOLEB\n    HOLEB = HOLEC\n    return HOLEA\n'),
    ('local_import_mix', 'def f(path):\n    import HOLEA\n    first = HOLEA.load(path)\n    second = first + first\n    third = HOLEA.load(second)\n    return third, HOLEB, HOLEC\n'),
    ('nonlocal_two_levels', 'def f():\n    HOLEA = 1\n    def g():\n        HOLEB = 2\n        def h():\n            nonlocal HOLEA, HOLEB\n            HOLEA = HOLEB\n            return HOLEC\n        return h\n    return g\n'),
    ('nested_classes', 'HOLEA = 1\nclass Outer:\n    HOLEA = 2\n    class Inner:\n        HOLEB = HOLEA\n        def m(self):\n            return HOLEA, HOLEB, HOLEC\n'),
    ('nonlocal_import_method', 'def outer():\n    import HOLEA\n    class K:\n        def m(self, HOLEB):\n            nonlocal HOLEA\n            HOLEA = HOLEB\n            return self, self, self, HOLEC\n    return K\n'),
    ('global_first_seen', 'def f():\n    global HOLEA, HOLEB\n    HOLEA = 1\n    HOLEB = 2\ndef g():\n    return HOLEA, HOLEB, HOLEC\n'),
    ('walrus_nested_module', 'HOLEB = [[(HOLEA := v) * 2 for v in r] for r in HOLEC]\nprint(HOLEA, HOLEB)\n'),
    ('setcomp_cond', 'def f(HOLEA, t):\n    return {HOLEB for HOLEB in HOLEA if HOLEB != HOLEC if t(HOLEB)}\n'),
]

# templates that contain a dynamic-name-access trigger (C09); the trigger may be shadowed when a hole takes its name
TAINT_TEMPLATES = [
    ('eval_in_function', 'def f(HOLEA):\n    HOLEB = HOLEA\n    return eval("HOLEB") + HOLEC\n'),
    ('locals_module', 'HOLEA = 1\ndef f(HOLEB):\n    return HOLEB + HOLEC\nprint(locals())\n'),
    ('exec_nested', 'def f(HOLEA):\n    def g(HOLEB):\n        exec(HOLEB)\n        return HOLEA + HOLEC\n    return g\n'),
    ('globals_alias', 'g = globals\ndef f(HOLEA, HOLEB):\n    return HOLEA + HOLEB + HOLEC\n'),
    ('vars_in_class', 'class K:\n    HOLEA = vars()\n    def m(self, HOLEB):\n        HOLEC = HOLEB\n        return HOLEC\n'),
    ('star_import', 'from m import *\ndef f(HOLEA):\n    HOLEB = HOLEA\n    return HOLEB + HOLEC\n'),
    ('star_import_relative', 'from . import *\ndef f(HOLEA):\n    HOLEB = HOLEA\n    return HOLEB + HOLEC\n'),
    ('eval_in_lambda_default', 'def f(HOLEA, HOLEB=lambda: eval("1")):\n    HOLEC = HOLEA\n    return HOLEC\n'),
    ('eval_in_comprehension', 'def f(HOLEA):\n    HOLEB = [eval(HOLEC) for HOLEC in HOLEA]\n    return HOLEB\n'),
    ('literal_heavy_eval', 'def f(HOLEA):\n    HOLEB = "some long text" + "some long text" + "some long text" + "some long text"\n    return eval(HOLEA) + HOLEB + HOLEC\n'),
    ('nested_class_shadow', 'class Outer:\n    def eval(self, HOLEA):\n        return HOLEA\n    class Inner:\n        def m(self, HOLEB):\n            HOLEC = HOLEB\n            return eval("HOLEC")\n'),
    ('class_attr_named_locals', 'class K:\n    locals = ()\n    def m(self, HOLEA):\n        HOLEB = HOLEA\n        return locals(), HOLEB, HOLEC\n'),
    ('global_decl_trigger', 'def f(HOLEA):\n    global exec\n    HOLEB = HOLEA\n    return exec(HOLEB), HOLEC\n'),
]
TRIGGERS = ('exec', 'eval', 'locals', 'globals', 'vars')

# templates for preserve lists / __all__ (C10)
PRESERVE_TEMPLATES = [
    ('all_list', '__all__ = ["HOLEA", "x"]\nHOLEA = 1\nHOLEB = 2\ndef HOLEC():\n    return HOLEA + HOLEB\n'),
    ('all_augmented', '__all__ = ["x"]\n__all__ += ["HOLEA"]\nHOLEA = 1\nHOLEB = HOLEA\nHOLEC = HOLEB\n'),
    ('all_annotated', '__all__: list = ["HOLEA", "HOLEB"]\nHOLEA = 1\nHOLEB = 2\nHOLEC = HOLEA + HOLEB\n'),
    ('locals_nested', 'def f(x):\n    HOLEA = x\n    def g(HOLEB):\n        HOLEC = HOLEA + HOLEB\n        return HOLEC\n    return g\n'),
    ('globals_and_locals', 'HOLEA = 1\ndef HOLEB(x):\n    HOLEC = x + HOLEA\n    return HOLEC\n'),
]

# templates with literals in every position hoisting cares about (C06)
HOIST_TEMPLATES = [
    ('module_repeat', 'HOLEA = "some text here"\nHOLEB = "some text here"\nHOLEC = "some text here" + "some text here"\n'),
    ('nested_def', 'def f(HOLEA):\n    HOLEB = "repeated literal"\n    def g():\n        return "repeated literal" + HOLEC + "repeated literal"\n    return g, "repeated literal"\n'),
    ('doc_future', '"""module doc"""\nfrom __future__ import annotations\nHOLEA = "repeated literal", "repeated literal", "repeated literal", "repeated literal"\ndef f():\n    """repeated literal"""\n    return "repeated literal", HOLEB, HOLEC\n'),
    ('slots_match_fstring', 'class K:\n    __slots__ = ("repeated_slot", "repeated_slot")\n    HOLEA = "repeated_slot", "repeated_slot", "repeated_slot"\n    def m(self, HOLEB):\n        match HOLEB:\n            case "repeated_slot":\n                return f"repeated_slot{HOLEC}repeated_slot"\n        return "repeated_slot"\n'),
    ('none_true_bytes', 'def f(HOLEA=None, HOLEB=None):\n    if HOLEA is None and HOLEB is None:\n        return None, None, None, True, True, True, b"bytes literal", b"bytes literal", b"bytes literal"\n    return HOLEC\n'),
    ('one_true_float', 'def f():\n    HOLEA = [True, True, True, True, True, 1, 1, 1, 1, 1, 1.0, 1.0, 1.0, 1.0]\n    HOLEB = [0, 0, 0, 0, 0, False, False, False, False, 0.0, 0.0, 0.0, 0.0]\n    return HOLEA, HOLEB, HOLEC\n'),
    ('decorator_default_lambda', '@d("decorator text")\ndef f(HOLEA="decorator text"):\n    return [HOLEB + "decorator text" for HOLEB in HOLEC], (lambda: "decorator text")\n'),
    ('shared_and_local', 'def f(HOLEA):\n    return "shared literal", "shared literal", "only in f!", "only in f!", "only in f!", HOLEA\ndef g(HOLEB):\n    return "shared literal", "shared literal", HOLEB, HOLEC\n'),
    ('class_method_doc', 'class K:\n    """class doc text"""\n    def m(self, HOLEA):\n        """class doc text"""\n        return "class doc text", "class doc text", "class doc text", HOLEA, HOLEB, HOLEC\n'),
    ('decorator_only', '@tag("/status-page")\ndef status(HOLEA):\n    return ["/status-page", "/status-page", HOLEA, HOLEB, HOLEC]\n'),
    ('import_and_literal', 'def scan(text):\n    from re import HOLEA\n    return findall("[a-z]+", text, HOLEA), "[a-z]+", "[a-z]+", HOLEB, HOLEC\n'),
    ('folded_in_comprehension', 'def scale(HOLEA):\n    return [(0.5 + 0.5) * HOLEB + (0.5 + 0.5) - (0.5 + 0.5) for HOLEB in HOLEA], (True ^ False), (True ^ False), (True ^ False), HOLEC\n'),
    ('folded_in_default_lambda', 'def g(HOLEA=(0.5 + 0.5), HOLEB=(0.5 + 0.5)):\n    return (lambda HOLEC: HOLEC * (0.5 + 0.5) + (0.5 + 0.5)), HOLEA, HOLEB\n'),
    ('str_vs_bytes_same', 'def f(HOLEA):\n    return "same text", "same text", "same text", b"same text", b"same text", b"same text", HOLEA, HOLEB, HOLEC\n'),
]

# templates with annotated class attributes (C04 with remove_annotations on)
ANN_TEMPLATES = [
    ('class_attr_in_function', 'def make(HOLEA):\n    class K:\n        HOLEB: int = 3\n        HOLEC: str\n        def m(self):\n            return self.HOLEB, HOLEA\n    return K\n'),
    ('class_attr_module', 'class K:\n    HOLEA: int = 3\n    HOLEB: int = HOLEA\n    def m(self, HOLEC: int) -> int:\n        return self.HOLEA + HOLEC\n'),
    ('function_local_annotated', 'def f(HOLEA: int):\n    HOLEB: int = HOLEA\n    HOLEC: int\n    return HOLEB\n'),
]

_PARSED = {}


def _parsed(lib, k):
    # every template is parsed once at import time: nothing here may depend on which paths ran before
    return _PARSED[id(lib)][k]


def _subst(value, mapping):
    if isinstance(value, str):
        for h, r in mapping:
            if value == h:
                return r
        # dotted import names: HOLEA.sub
        for h, r in mapping:
            if value.startswith(h + '.'):
                return r + value[len(h):]
    return value


def instantiate(k, A, B, C, lib=TEMPLATES):
    tree = copy.deepcopy(_parsed(lib, k))
    mapping = ((HOLES[0], A), (HOLES[1], B), (HOLES[2], C))
    for node in ast.walk(tree):
        for field, value in ast.iter_fields(node):
            if isinstance(value, str):
                nv = _subst(value, mapping)
                if nv is not value:
                    setattr(node, field, nv)
            elif isinstance(value, list) and value and isinstance(value[0], str):
                setattr(node, field, [_subst(v, mapping) for v in value])
    return tree


def source(k, A, B, C, lib=TEMPLATES):
    s = lib[k][1]
    return s.replace(HOLES[0], A).replace(HOLES[1], B).replace(HOLES[2], C)


for _lib in (TEMPLATES, TAINT_TEMPLATES, PRESERVE_TEMPLATES, HOIST_TEMPLATES, ANN_TEMPLATES):
    _PARSED[id(_lib)] = [ast.parse(t[1]) for t in _lib]
