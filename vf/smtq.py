"""Engine E2: direct z3 queries (C13a).  The argparse flag table is read from the parser object that the real
parse_args() builds; the query "some flag subset yields a namespace different from the documented one" must be unsat.
Every query is also written as SMT-LIB2 and re-run with /usr/bin/z3; disagreement or an (error line = inconclusive.
The argparse model (store_true / store_false / append / store) is validated on solver-chosen witness subsets by
running the real parser.
"""
import argparse
import os
import subprocess
import sys
import tempfile
import time

import z3

from vf.stubs import mod, patched

# The documented meaning of every option flag: flag -> (namespace dest, value when the flag is given, default).
# Written from docs/source/transforms/*.rst ("Disable ... by passing --no-x" / "Enable ... by passing --x") and the
# help= strings shown by `pyminify --help` (docs/source/command_usage.rst).  NOT derived from the code's action= table.
DOCUMENTED_FLAGS = {
    '--no-combine-imports': ('combine_imports', False, True),
    '--no-remove-pass': ('remove_pass', False, True),
    '--remove-literal-statements': ('remove_literal_statements', True, False),
    '--no-hoist-literals': ('hoist_literals', False, True),
    '--no-rename-locals': ('rename_locals', False, True),
    '--rename-globals': ('rename_globals', True, False),
    '--no-remove-object-base': ('remove_object_base', False, True),
    '--no-convert-posargs-to-args': ('convert_posargs_to_args', False, True),
    '--no-preserve-shebang': ('preserve_shebang', False, True),
    '--remove-asserts': ('remove_asserts', True, False),
    '--remove-debug': ('remove_debug', True, False),
    '--no-remove-explicit-return-none': ('remove_explicit_return_none', False, True),
    '--no-remove-builtin-exception-brackets': ('remove_exception_brackets', False, True),
    '--no-constant-folding': ('constant_folding', False, True),
    '--no-remove-annotations': ('remove_annotations', False, True),
    '--no-remove-variable-annotations': ('remove_variable_annotations', False, True),
    '--no-remove-return-annotations': ('remove_return_annotations', False, True),
    '--no-remove-argument-annotations': ('remove_argument_annotations', False, True),
    '--remove-class-attribute-annotations': ('remove_class_attribute_annotations', True, False),
}
DOCUMENTED_LISTS = {'--preserve-locals': 'preserve_locals', '--preserve-globals': 'preserve_globals'}
DOCUMENTED_OUTPUT = {'--output': 'output', '-o': 'output', '--in-place': 'in_place', '-i': 'in_place'}


class _Captured(Exception):
    def __init__(self, parser):
        self.parser = parser


def real_parser():
    """Runs the real parse_args() up to the point where it would parse sys.argv; returns the parser it built."""
    m = mod('python_minifier.__main__')

    def capture(self, *a, **k):
        raise _Captured(self)

    with patched(argparse.ArgumentParser, 'parse_args', capture):
        try:
            m.parse_args()
        except _Captured as c:
            return c.parser
    raise RuntimeError('parse_args() did not call ArgumentParser.parse_args')


def flag_table(parser):
    """[(option string, action kind, dest, const, default)] for every optional action of the real parser."""
    rows = []
    for a in parser._actions:
        kind = type(a).__name__
        for opt in a.option_strings:
            rows.append((opt, kind, a.dest, a.const, a.default))
    return rows


def _smt2_check(solver, timeout=60):
    """Re-run the solver's assertions with the z3 binary; returns 'sat'/'unsat'/'unknown'/'error'."""
    text = '(set-logic ALL)\n' + solver.to_smt2()
    fd, path = tempfile.mkstemp(suffix='.smt2', prefix='verif_c13_')
    try:
        with os.fdopen(fd, 'w') as f:
            f.write(text)
        p = subprocess.run(['/usr/bin/z3', '-T:%d' % timeout, path], capture_output=True, text=True, timeout=timeout + 10)
        out = p.stdout.strip()
        if '(error' in out:
            return 'error'
        first = out.splitlines()[0] if out else 'error'
        return first if first in ('sat', 'unsat', 'unknown') else 'error'
    except Exception:
        return 'error'
    finally:
        os.unlink(path)


def check_flag_table(n_witness=64):
    """Returns dict(verdict, detail, queries, solver_time_s, samples, violation)."""
    t0 = time.time()
    queries = 0
    samples = []
    parser = real_parser()
    rows = flag_table(parser)
    bool_rows = [r for r in rows if r[1] in ('_StoreTrueAction', '_StoreFalseAction') and r[0] not in DOCUMENTED_OUTPUT]
    present = {r[0]: z3.Bool('flag' + r[0].replace('-', '_')) for r in bool_rows}

    # --- structural queries -------------------------------------------------------------------------------------
    problems = []
    code_flags = {r[0] for r in rows if r[0].startswith('--') and r[0] not in ('--version', '--help', '--output', '--in-place')}
    doc_flags = set(DOCUMENTED_FLAGS) | set(DOCUMENTED_LISTS)
    for f in sorted(doc_flags - code_flags):
        problems.append(('missing-flag', f, 'documented flag %s is not accepted by the parser' % f))
    for f in sorted(code_flags - doc_flags):
        problems.append(('undocumented-flag', f, 'parser accepts %s which the documented table does not know' % f))
    for opt, dest in DOCUMENTED_LISTS.items():
        r = [x for x in rows if x[0] == opt]
        if r and (r[0][1] != '_AppendAction' or r[0][2] != dest):
            problems.append(('list-flag', opt, '%s should append to %s, is %s -> %s' % (opt, dest, r[0][1], r[0][2])))
    for opt, dest in DOCUMENTED_OUTPUT.items():
        r = [x for x in rows if x[0] == opt]
        if not r or r[0][2] != dest:
            problems.append(('output-flag', opt, '%s should set %s' % (opt, dest)))

    # --- the namespace as a function of the flag set (argparse semantics) ---------------------------------------
    dests = sorted({r[2] for r in bool_rows} | {v[0] for v in DOCUMENTED_FLAGS.values()})
    code_ns = {}
    for d in dests:
        rs = [r for r in bool_rows if r[2] == d]
        if not rs:
            code_ns[d] = None
            continue
        # value = const of a present flag for this dest (last one wins; order irrelevant when consts agree), else default
        expr = z3.BoolVal(bool(rs[0][4]))
        for r in rs:
            expr = z3.If(present[r[0]], z3.BoolVal(bool(r[3])), expr)
        code_ns[d] = expr
        if any(r[4] is None for r in rs):
            problems.append(('default-none', d, 'dest %s has default None (argparse store action without default?)' % d))
    doc_ns = {}
    for f, (d, val, default) in DOCUMENTED_FLAGS.items():
        p = present.get(f)
        doc_ns[d] = z3.If(p, z3.BoolVal(val), z3.BoolVal(default)) if p is not None else z3.BoolVal(default)

    s = z3.Solver()
    diffs = []
    for d in dests:
        if code_ns.get(d) is None or d not in doc_ns:
            problems.append(('dest', d, 'dest %s missing on one side (code: %s, documented: %s)' % (d, code_ns.get(d) is not None, d in doc_ns)))
            continue
        diffs.append(code_ns[d] != doc_ns[d])
    s.add(z3.Or(*diffs) if diffs else z3.BoolVal(False))
    r1 = str(s.check()); queries += 1
    r1b = _smt2_check(s); queries += 1
    samples.append({'query': 'exists flag subset F (2^%d subsets): namespace_code(F) != namespace_documented(F)' % len(present),
                    'z3_api': r1, 'z3_binary': r1b})
    violation = None
    if r1 == 'sat':
        m = s.model()
        argv = [f for f, v in present.items() if z3.is_true(m.eval(v, model_completion=True))]
        ns = parser.parse_args(argv + ['x.py'])
        bad = {}
        for f, (d, val, default) in DOCUMENTED_FLAGS.items():
            exp = val if f in argv else default
            if getattr(ns, d, None) != exp:
                bad[d] = (getattr(ns, d, None), exp)
        if bad:
            violation = {'argv': argv, 'detail': 'real parser gives %s (got, documented)' % bad}
        else:
            problems.append(('model', 'argparse', 'z3 model %s did not reproduce on the real parser: argparse model wrong' % argv))
    elif r1 != 'unsat' or r1b != 'unsat':
        problems.append(('solver', 'flags', 'solvers did not both answer unsat: api=%s binary=%s' % (r1, r1b)))

    # two flags that share a dest
    shared = [d for d in dests if len([r for r in bool_rows if r[2] == d]) > 1]
    for d in shared:
        problems.append(('shared-dest', d, 'more than one flag writes dest %s: %s' % (d, [r[0] for r in bool_rows if r[2] == d])))

    # --- validate the argparse model on solver-chosen witnesses -------------------------------------------------
    validated = 0
    s2 = z3.Solver()
    flags = list(present)
    witness_sets = [[], list(flags)] + [[f] for f in flags]
    # models with blocking clauses: z3 picks further subsets
    import random
    rnd = random.Random(int(os.environ.get('VERIF_SEED', '0') or 0))
    for i in range(n_witness):
        # steer: ask for a subset of a solver-chosen parity pattern
        k = rnd.randrange(1, len(flags)) if flags else 0
        s2.push()
        s2.add(z3.PbEq([(present[f], 1) for f in flags], k))
        if s2.check() == z3.sat:
            m = s2.model()
            ws = [f for f in flags if z3.is_true(m.eval(present[f], model_completion=True))]
            witness_sets.append(ws)
            s2.pop()
            s2.add(z3.Or(*[present[f] != m.eval(present[f], model_completion=True) for f in flags]))
        else:
            s2.pop()
        queries += 1
    for ws in witness_sets:
        try:
            ns = parser.parse_args(list(ws) + ['x.py'])
        except SystemExit:
            problems.append(('model', 'argparse', 'real parser rejected %s' % ws))
            continue
        for d in dests:
            if code_ns.get(d) is None:
                continue
            sub = [(present[f], z3.BoolVal(f in ws)) for f in flags]
            val = z3.is_true(z3.simplify(z3.substitute(code_ns[d], *sub)))
            if getattr(ns, d) != val:
                problems.append(('model', d, 'argparse model disagrees with the real parser on %s: dest %s model=%s real=%s' % (ws, d, val, getattr(ns, d))))
        validated += 1

    hard = [p for p in problems if p[0] != 'model' and p[0] != 'solver']
    if violation is None and hard:
        # a structural mismatch is a violation too: demonstrate it on the real parser
        kind, key, text = hard[0]
        violation = {'argv': [key], 'detail': text}
    verdict = 'violated' if violation else ('inconclusive' if problems else 'discharged')
    return {'verdict': verdict, 'problems': [p[2] for p in problems], 'queries': queries,
            'solver_time_s': round(time.time() - t0, 3), 'samples': samples, 'violation': violation,
            'witnesses_validated': validated, 'flags': len(present),
            'functions': ['python_minifier/__main__.py:parse_args (parser construction executed for real; table read from parser._actions)']}
