#!/bin/bash
# Builds the verification venv offline: /venv's interpreter + its site-packages (python_minifier dev install ->
# /repo/src) overlaid with crosshair-tool and z3 from the wheelhouse.  Idempotent.
set -e
cd "$(dirname "$0")"
if [ ! -x .venv/bin/python ] || ! .venv/bin/python -c "import crosshair, z3" 2>/dev/null; then
  rm -rf .venv
  /venv/bin/python -m venv .venv
  echo "import site; site.addsitedir('/venv/lib/python3.12/site-packages')" > .venv/lib/python3.12/site-packages/_venv_overlay.pth
  PIP_NO_INDEX=1 .venv/bin/pip install -q --no-index --find-links /opt/veriftools/wheels crosshair-tool
fi
.venv/bin/python -c "import crosshair, z3, python_minifier, os; r = os.path.realpath(os.environ.get('VERIF_REPO', '/repo')) + '/'; assert os.path.realpath(python_minifier.__file__).startswith(r), python_minifier.__file__"
echo "setup ok"
